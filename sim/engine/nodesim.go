package engine

import (
	"context"
	"errors"
	"fmt"
	"runtime/debug"
	"sync"
	"time"

	raft "go.etcd.io/raft/v3"
	pb "go.etcd.io/raft/v3/raftpb"
)

// E3 "nodesim": the node is driven through the channel-based raft.Node
// (node.go) instead of the RawNode. The Node's run loop is a real goroutine;
// the simulator owns its schedule through the scheduling points that the
// verif hooks add to node.go:
//
//   - the run loop parks right before every select (VerifLoopTop) and reports
//     which optional cases (proposals, Ready, Advance) that select would have
//     enabled;
//   - it parks between stepping a proposal and posting its outcome
//     (VerifLoopProposalStepped);
//   - a waiting proposer parks between handing its proposal to the run loop
//     and waiting for the outcome (VerifProposalHandedOver).
//
// The driver performs one operation at a time: it releases the run loop for
// exactly one select, offers exactly one enabled channel operation, and waits
// until the loop is parked again. At every instant at most one communication
// is enabled, so Go's randomised select has nothing to choose and the
// execution is a pure function of the action list. An operation that the Node
// would block on (a proposal while no leader is known, Ready while nothing is
// ready, Advance without an outstanding Ready) is recognised from the reported
// loop state: a proposal is then issued with a context that is already
// cancelled (the only enabled case of the proposer's select), the others are
// inapplicable.
//
// The one genuine race of node.go that a caller can see - a proposer whose
// context ends after the run loop took the proposal but before it posted the
// outcome - is a schedulable variant of the Propose action.

// raftAPI is the part of RawNode the executor drives. *raft.RawNode
// implements it directly (E1, E2); nodeDriver implements it over raft.Node.
type raftAPI interface {
	Tick()
	Step(m *pb.Message) error
	Propose(data []byte) error
	ProposeConfChange(cc pb.ConfChangeI) error
	ApplyConfChange(cc pb.ConfChangeI) *pb.ConfState
	Campaign() error
	ReadIndex(rctx []byte)
	TransferLeader(transferee uint64)
	ForgetLeader() error
	ReportUnreachable(id uint64)
	ReportSnapshot(id uint64, status raft.SnapshotStatus)
	HasReady() bool
	Ready() raft.Ready
	Advance(rd raft.Ready)
}

// errNotHandedOver: the Node had its proposal channel closed (no leader
// known, or the node removed itself); the proposal never reached raft.
var errNotHandedOver = errors.New("nodesim: proposal not handed to raft (no leader known)")

// errIndeterminate: the call returned without telling whether raft accepted
// the proposal (fire-and-forget Step of a MsgProp, or a proposer whose
// context ended after the hand-over).
var errIndeterminate = errors.New("nodesim: outcome of the proposal not reported to the caller")

type drvEvent struct {
	who   int // 0 run loop, 1 proposer, 2 panic of the run loop
	point int
	a, b  bool
	c     bool
	val   interface{}
	stack []byte
}

// nodePanic carries a panic of the run loop goroutine into the driver's
// goroutine, where the executor's guard turns it into a C14 violation.
type nodePanic struct {
	val   interface{}
	stack []byte
}

type nodeDriver struct {
	node    raft.Node
	rn      *raft.RawNode
	events  chan drvEvent
	relLoop chan struct{}
	relProp chan struct{}

	propOpen, readyArmed, advanceArmed bool
	dead                               bool
	// cancelNext makes the next waiting Propose end its context between the
	// hand-over and the outcome.
	cancelNext bool
	// stats
	cancelled int
}

var (
	drvMu      sync.Mutex
	drvByNode  = map[raft.Node]*nodeDriver{}
	drvPending *nodeDriver
	drvInstall sync.Once
)

func drvLookup(n raft.Node) *nodeDriver {
	drvMu.Lock()
	defer drvMu.Unlock()
	if d := drvByNode[n]; d != nil {
		return d
	}
	// The only goroutine that can reach a scheduling point unregistered is the
	// run loop of the node being started right now (one at a time).
	d := drvPending
	if d != nil {
		drvByNode[n] = d
	}
	return d
}

func installNodeYield() {
	drvInstall.Do(func() {
		raft.VerifNodeYield = func(n raft.Node, point int, propOpen, readyArmed, advanceArmed bool) {
			d := drvLookup(n)
			if d == nil {
				return
			}
			if point == raft.VerifProposalHandedOver {
				d.events <- drvEvent{who: 1, point: point}
				<-d.relProp
				return
			}
			d.events <- drvEvent{who: 0, point: point, a: propOpen, b: readyArmed, c: advanceArmed}
			<-d.relLoop
		}
	})
}

// startNodeDriver starts a raft.Node (StartNode when peers are given,
// RestartNode otherwise) and waits until its run loop is parked.
func startNodeDriver(cfg *raft.Config, peers []raft.Peer) (*nodeDriver, error) {
	installNodeYield()
	d := &nodeDriver{events: make(chan drvEvent, 4), relLoop: make(chan struct{}, 1), relProp: make(chan struct{}, 1)}
	drvMu.Lock()
	drvPending = d
	drvMu.Unlock()
	n, err := raft.VerifStartNode(cfg, peers, func(v interface{}) {
		d.events <- drvEvent{who: 2, val: v, stack: debug.Stack()}
	})
	if err != nil {
		drvMu.Lock()
		drvPending = nil
		drvMu.Unlock()
		return nil, err
	}
	d.node = n
	d.rn = raft.VerifNodeRawNode(n)
	d.awaitLoopTop()
	drvMu.Lock()
	drvByNode[n] = d
	drvPending = nil
	drvMu.Unlock()
	return d, nil
}

// awaitLoopTop waits until the run loop is parked before its select again. A
// stop at VerifLoopProposalStepped on the way is passed through. A panic of
// the run loop is re-raised here, in the driver's goroutine.
func (d *nodeDriver) awaitLoopTop() {
	for {
		ev := d.nextEvent()
		switch {
		case ev.who == 2:
			d.dead = true
			d.forget()
			panic(nodePanic{ev.val, ev.stack})
		case ev.who == 0 && ev.point == raft.VerifLoopTop:
			d.propOpen, d.readyArmed, d.advanceArmed = ev.a, ev.b, ev.c
			return
		case ev.who == 0 && ev.point == raft.VerifLoopProposalStepped:
			d.release(d.relLoop)
		default:
			panic(fmt.Sprintf("nodesim: unexpected event %+v while waiting for the run loop", ev))
		}
	}
}

// handOffLimit bounds one goroutine hand-off in wall-clock time (they take
// microseconds): a hand-off nobody ever takes means that the code under check
// does not come back to a scheduling point, and the run is abandoned. The
// limit is never reached on a tree on which the hand-offs complete, so it
// cannot influence an execution.
const handOffLimit = 45 * time.Second

// nextEvent waits for the next park of the run loop or of a proposer. If the
// per-run wall-clock limit has been exceeded (the code under check does not
// come back to a scheduling point) the run is abandoned.
func (d *nodeDriver) nextEvent() drvEvent {
	select {
	case ev := <-d.events:
		return ev
	case <-currentAbort():
		d.dead = true
		d.forget()
		panic(runAbandoned{})
	case <-time.After(handOffLimit):
		d.dead = true
		d.forget()
		panic(runAbandoned{})
	}
}

// handOff performs one blocking channel operation of the Node API, giving up
// like nextEvent if nobody ever takes it.
func (d *nodeDriver) handOff(f func()) {
	done := make(chan struct{})
	go func() { f(); close(done) }()
	select {
	case <-done:
	case <-currentAbort():
		d.dead = true
		d.forget()
		panic(runAbandoned{})
	case <-time.After(handOffLimit):
		d.dead = true
		d.forget()
		panic(runAbandoned{})
	}
}

func (d *nodeDriver) awaitErr(ch chan error) error {
	select {
	case err := <-ch:
		return err
	case <-currentAbort():
		d.dead = true
		d.forget()
		panic(runAbandoned{})
	case <-time.After(handOffLimit):
		d.dead = true
		d.forget()
		panic(runAbandoned{})
	}
}

func (d *nodeDriver) release(ch chan struct{}) {
	select {
	case ch <- struct{}{}:
	case <-currentAbort():
		d.dead = true
		d.forget()
		panic(runAbandoned{})
	case <-time.After(handOffLimit):
		d.dead = true
		d.forget()
		panic(runAbandoned{})
	}
}

// serve releases the run loop for one select, performs the one channel
// operation f that this select will serve, and waits for the loop to park.
func (d *nodeDriver) serve(f func()) {
	if d.dead {
		return
	}
	d.release(d.relLoop)
	d.handOff(f)
	d.awaitLoopTop()
}

var cancelledCtx = func() context.Context {
	ctx, cancel := context.WithCancel(context.Background())
	cancel()
	return ctx
}()

func (d *nodeDriver) Tick() { d.serve(func() { d.node.Tick() }) }

func (d *nodeDriver) Step(m *pb.Message) error {
	if d.dead {
		return nil
	}
	if m.GetType() == pb.MsgProp {
		if !d.propOpen {
			// The run loop does not listen for proposals: the caller would block
			// until its context ends. The loop stays parked, so the context is the
			// only enabled case.
			if err := d.node.Step(cancelledCtx, m); err == nil {
				panic("nodesim: a proposal was accepted while the proposal channel is closed")
			}
			return errNotHandedOver
		}
		// fire and forget: Node.Step does not wait for the outcome
		var err error
		d.serve(func() { err = d.node.Step(context.Background(), m) })
		if err != nil {
			return err
		}
		return errIndeterminate
	}
	if raft.IsLocalMsg(m.GetType()) && !raft.IsLocalMsgTarget(m.GetFrom()) {
		// Node.Step ignores these without reaching the run loop.
		return d.node.Step(context.Background(), m)
	}
	var err error
	d.serve(func() { err = d.node.Step(context.Background(), m) })
	return err
}

func (d *nodeDriver) Propose(data []byte) error {
	if d.dead {
		return nil
	}
	if !d.propOpen {
		if err := d.node.Propose(cancelledCtx, data); err == nil {
			panic("nodesim: a proposal was accepted while the proposal channel is closed")
		}
		return errNotHandedOver
	}
	cancelIt := d.cancelNext
	d.cancelNext = false
	ctx, cancel := context.WithCancel(context.Background())
	defer cancel()
	done := make(chan error, 1)
	go func() { done <- d.node.Propose(ctx, data) }()
	d.release(d.relLoop)
	// Two parks are expected, in either order: the proposer after the
	// hand-over, the run loop after stepping the proposal.
	var loopStepped, propHanded bool
	for !(loopStepped && propHanded) {
		ev := d.nextEvent()
		switch {
		case ev.who == 2:
			d.dead = true
			d.forget()
			panic(nodePanic{ev.val, ev.stack})
		case ev.who == 1:
			propHanded = true
		case ev.who == 0 && ev.point == raft.VerifLoopProposalStepped:
			loopStepped = true
		default:
			panic(fmt.Sprintf("nodesim: unexpected event %+v during Propose", ev))
		}
	}
	if cancelIt {
		// The proposer's context ends before the outcome is posted.
		cancel()
		d.release(d.relProp)
		err := d.awaitErr(done)
		d.release(d.relLoop)
		d.awaitLoopTop()
		d.cancelled++
		if err == nil || errors.Is(err, raft.ErrProposalDropped) {
			// the proposer was given an outcome after all
			return err
		}
		return errIndeterminate
	}
	d.release(d.relLoop)
	d.awaitLoopTop()
	d.release(d.relProp)
	return d.awaitErr(done)
}

func (d *nodeDriver) ProposeConfChange(cc pb.ConfChangeI) error {
	if d.dead {
		return nil
	}
	if !d.propOpen {
		if err := d.node.ProposeConfChange(cancelledCtx, cc); err == nil {
			panic("nodesim: a proposal was accepted while the proposal channel is closed")
		}
		return errNotHandedOver
	}
	var err error
	d.serve(func() { err = d.node.ProposeConfChange(context.Background(), cc) })
	if err != nil {
		return err
	}
	return errIndeterminate
}

func (d *nodeDriver) ApplyConfChange(cc pb.ConfChangeI) *pb.ConfState {
	var cs *pb.ConfState
	d.serve(func() { cs = d.node.ApplyConfChange(cc) })
	return cs
}

func (d *nodeDriver) Campaign() error {
	var err error
	d.serve(func() { err = d.node.Campaign(context.Background()) })
	return err
}

func (d *nodeDriver) ReadIndex(rctx []byte) {
	d.serve(func() { _ = d.node.ReadIndex(context.Background(), rctx) })
}

func (d *nodeDriver) TransferLeader(transferee uint64) {
	d.serve(func() { d.node.TransferLeadership(context.Background(), d.rn.VerifState().Lead, transferee) })
}

func (d *nodeDriver) ForgetLeader() error {
	var err error
	d.serve(func() { err = d.node.ForgetLeader(context.Background()) })
	return err
}

func (d *nodeDriver) ReportUnreachable(id uint64) {
	d.serve(func() { d.node.ReportUnreachable(id) })
}

func (d *nodeDriver) ReportSnapshot(id uint64, status raft.SnapshotStatus) {
	d.serve(func() { d.node.ReportSnapshot(id, status) })
}

func (d *nodeDriver) HasReady() bool { return !d.dead && d.readyArmed }

func (d *nodeDriver) Ready() raft.Ready {
	var rd raft.Ready
	if d.dead || !d.readyArmed {
		return rd
	}
	d.serve(func() { rd = <-d.node.Ready() })
	return rd
}

func (d *nodeDriver) Advance(raft.Ready) {
	if d.dead || !d.advanceArmed {
		return
	}
	d.serve(func() { d.node.Advance() })
}

// stop ends the run loop (crash, or end of the run).
func (d *nodeDriver) stop() {
	if d.dead {
		return
	}
	d.dead = true
	defer func() {
		// a run loop that never comes back is left behind (the run is being
		// abandoned anyway)
		if r := recover(); r != nil {
			if _, ok := r.(runAbandoned); !ok {
				panic(r)
			}
		}
		d.forget()
	}()
	d.release(d.relLoop)
	d.handOff(func() { d.node.Stop() })
}

func (d *nodeDriver) forget() {
	drvMu.Lock()
	delete(drvByNode, d.node)
	drvMu.Unlock()
}
