package engine

import (
	crand "crypto/rand"
	"io"
)

// splitmix64 is the mixing function used to derive independent streams.
func splitmix64(x uint64) uint64 {
	x += 0x9e3779b97f4a7c15
	z := x
	z = (z ^ (z >> 30)) * 0xbf58476d1ce4e5b9
	z = (z ^ (z >> 27)) * 0x94d049bb133111eb
	return z ^ (z >> 31)
}

// Mix derives a sub-seed.
func Mix(a, b uint64) uint64 { return splitmix64(splitmix64(a) ^ (b * 0xd6e8feb86659fd93)) }

// nodeRand is the byte stream raft's election-timeout draw reads for one node
// incarnation: a pure function of (run seed, node, incarnation, counter).
type nodeRand struct {
	key uint64
	ctr uint64
	// Draws counts how many bytes were requested (for the determinism log).
	Draws uint64
}

func newNodeRand(runSeed, node uint64, incarnation int) *nodeRand {
	return &nodeRand{key: Mix(Mix(runSeed, node), uint64(incarnation)+0x51)}
}

func (r *nodeRand) Read(p []byte) (int, error) {
	for i := range p {
		w := splitmix64(r.key + (r.ctr/8)*0x9e3779b97f4a7c15)
		p[i] = byte(w >> (8 * (r.ctr % 8)))
		r.ctr++
	}
	r.Draws += uint64(len(p))
	return len(p), nil
}

// seamReader replaces crypto/rand.Reader for the lifetime of the process. raft's
// only randomness is crypto/rand.Int(crypto/rand.Reader, n) in
// resetRandomizedElectionTimeout; the executor points cur at the node it is
// about to call into.
type seamReader struct {
	cur      *nodeRand
	fallback io.Reader
	// Stray counts reads that happened while no node was current (must stay 0).
	Stray uint64
}

func (s *seamReader) Read(p []byte) (int, error) {
	if s.cur != nil {
		return s.cur.Read(p)
	}
	s.Stray++
	for i := range p {
		p[i] = 0
	}
	return len(p), nil
}

var seam = &seamReader{}

// InstallRandSeam must be called once per process before any RawNode exists.
func InstallRandSeam() {
	if seam.fallback == nil {
		seam.fallback = crand.Reader
		crand.Reader = seam
	}
}
