package engine

import (
	"fmt"
	"os"
	"sort"
	"strconv"
	"sync"
	"sync/atomic"
	"time"
)

// ViolRec is a violation found by a worker, with everything needed to replay.
type ViolRec struct {
	RunIndex  int        `json:"run_index"`
	RunSeed   uint64     `json:"run_seed"`
	Profile   string     `json:"profile"`
	Config    RunConfig  `json:"config"`
	Actions   []Action   `json:"actions"`
	Violation *Violation `json:"violation"`
	Digest    string     `json:"digest"`
}

// Sample is a run written out for the evidence file.
type Sample struct {
	RunIndex int       `json:"run_index"`
	RunSeed  uint64    `json:"run_seed"`
	Profile  string    `json:"profile"`
	Config   RunConfig `json:"config"`
	Actions  []string  `json:"actions"`
	Total    int       `json:"total_actions"`
	Digest   string    `json:"digest"`
	Heal     string    `json:"heal"`
}

// BatchOut is what one worker process reports.
type BatchOut struct {
	Property   string           `json:"property"`
	Profile    string           `json:"profile"`
	From, To   int              `json:"from_to"`
	Runs       int              `json:"runs"`
	Actions    int64            `json:"actions"`
	Applicable int64            `json:"applicable"`
	Ticks      int64            `json:"ticks"`
	WallS      float64          `json:"wall_s"`
	Faults     map[string]int64 `json:"faults"`
	Probes     map[string]int64 `json:"probes"`
	Evals      map[string]int64 `json:"evals"`
	ByKind     map[string]int64 `json:"by_kind"`
	MsgTypes   map[string]int64 `json:"msg_types"`
	// RunsWithProbe counts runs in which a probe fired at least once.
	RunsWithProbe map[string]int64 `json:"runs_with_probe"`
	NonTrivial    int64            `json:"nontrivial"`
	Digests       []uint64         `json:"-"`
	StateHashes   []uint64         `json:"-"`
	Bigrams       []uint16         `json:"bigrams"`
	Violations    []ViolRec        `json:"violations"`
	TargetCount   int              `json:"target_count"`
	Foreign       map[string]int64 `json:"foreign"`
	ToolErrors    []string         `json:"tool_errors"`
	Samples       []Sample         `json:"samples"`
	HealConverged int64            `json:"heal_converged"`
	HealExempt    int64            `json:"heal_exempt"`
	HealRun       int64            `json:"heal_run"`
	HealRoundsMax int              `json:"heal_rounds_max"`
	HealRoundsSum int64            `json:"heal_rounds_sum"`
	HealRatioMax  float64          `json:"heal_ratio_max"`
	LinChecked    int64            `json:"lin_checked"`
	LinOps        int64            `json:"lin_ops"`
	Inconclusive  int64            `json:"inconclusive"`
	MaxTerm       uint64           `json:"max_term"`
	LeaderTerms   int64            `json:"leader_terms"`
	Crashes       int64            `json:"crashes"`
	DetMismatch   int              `json:"det_mismatch"`
	DetChecked    int              `json:"det_checked"`
}

func addMap(dst map[string]int64, src map[string]int) {
	for k, v := range src {
		dst[k] += int64(v)
	}
}

// RunBatch executes runs [from, to) of a profile for a property.
func RunBatch(property string, p Profile, verifSeed uint64, from, to int, mandatory []string, deadline time.Time, detEvery int) *BatchOut {
	out := &BatchOut{Property: property, Profile: p.Name, From: from, To: to,
		Faults: map[string]int64{}, Probes: map[string]int64{}, Evals: map[string]int64{}, ByKind: map[string]int64{},
		MsgTypes: map[string]int64{}, RunsWithProbe: map[string]int64{}, Foreign: map[string]int64{}}
	t0 := time.Now()
	states := map[uint64]struct{}{}
	bigrams := map[uint16]struct{}{}
	for i := from; i < to; i++ {
		if !deadline.IsZero() && time.Now().After(deadline) {
			out.To = i
			break
		}
		watchdogArm(p.Name, i)
		r := RunOne(p, verifSeed, i, Options{Target: property})
		watchdogDisarm()
		out.Runs++
		st := r.Stats
		out.Actions += int64(st.Actions)
		out.Applicable += int64(st.Applicable)
		out.Ticks += int64(st.Ticks)
		addMap(out.Faults, st.Faults)
		addMap(out.Probes, st.Probes)
		addMap(out.Evals, st.OracleEvals)
		addMap(out.MsgTypes, st.MsgsByType)
		for k := ActKind(0); k < numActKinds; k++ {
			if st.ByKind[k] > 0 {
				out.ByKind[k.String()] += int64(st.ByKind[k])
			}
		}
		for k, v := range st.Probes {
			if v > 0 {
				out.RunsWithProbe[k]++
			}
		}
		for h := range st.StateHashes {
			if len(states) < 1<<20 {
				states[h] = struct{}{}
			}
		}
		for b := range st.Bigrams {
			bigrams[b] = struct{}{}
		}
		out.Crashes += int64(st.Crashes)
		out.LeaderTerms += int64(st.LeaderTerms)
		out.Inconclusive += int64(st.Inconclusive)
		if st.MaxTerm > out.MaxTerm {
			out.MaxTerm = st.MaxTerm
		}
		if r.Heal != nil {
			out.HealRun++
			out.HealRoundsSum += int64(r.Heal.Rounds)
			if r.Heal.Converged {
				out.HealConverged++
				if r.Heal.Rounds > out.HealRoundsMax {
					out.HealRoundsMax = r.Heal.Rounds
				}
				if r.Heal.Exempt == "" && r.Heal.Budget > 0 {
					if q := float64(r.Heal.Rounds) / float64(r.Heal.Budget); q > out.HealRatioMax {
						out.HealRatioMax = q
					}
				}
			}
			if r.Heal.Exempt != "" {
				out.HealExempt++
			}
		}
		if r.LinResult != "" {
			out.LinChecked++
			out.LinOps += int64(r.LinOps)
		}
		var d uint64
		for _, ch := range []byte(r.Digest) {
			d = d*16 + uint64(hexVal(ch))
		}
		out.Digests = append(out.Digests, d)
		// non-trivial: a fault took effect and every mandatory probe fired
		faulted := false
		for k, v := range st.Faults {
			if v > 0 && k != "heal" {
				faulted = true
			}
		}
		all := true
		for _, m := range mandatory {
			if st.Probes[m] == 0 {
				all = false
			}
		}
		if faulted && all && r.Violation == nil {
			out.NonTrivial++
		}
		if r.ToolError != "" {
			if len(out.ToolErrors) < 5 {
				out.ToolErrors = append(out.ToolErrors, r.ToolError)
			}
		} else if v := r.Violation; v != nil {
			if v.Property == property {
				out.TargetCount++
				if len(out.Violations) < 4 {
					acts := r.Trace
					// A violation found after the chaos phase (in the heal or close
					// phase, or by the final history checks) is replayed by running
					// that deterministic procedure again from the phase marker: the
					// procedure does more than execute actions (truthful snapshot
					// reports, periodic application snapshots, drained queues).
					if r.HealAt >= 0 && r.HealAt < len(r.Trace) {
						acts = append([]Action(nil), r.Trace[:r.HealAt+1]...)
					}
					out.Violations = append(out.Violations, ViolRec{RunIndex: i, RunSeed: r.RunSeed, Profile: p.Name, Config: r.Config, Actions: acts, Violation: v, Digest: r.Digest})
				}
			} else {
				out.Foreign[v.Property+"/"+v.Sig]++
			}
		}
		if f := r.Foreign; f != nil {
			out.Foreign[f.Property+"/"+f.Sig]++
		}
		if len(out.Samples) < 2 && r.Violation == nil && faulted && st.Actions < 900 {
			out.Samples = append(out.Samples, makeSample(r, p.Name, 120))
		}
		// determinism: re-execute the recorded action list and compare
		if detEvery > 0 && i%detEvery == 0 && r.Violation == nil && r.ToolError == "" {
			out.DetChecked++
			if v := DeterminismCheck(r, Options{Target: property}); v != nil {
				out.DetMismatch++
				if property == "C19" {
					out.TargetCount++
					if len(out.Violations) < 4 {
						out.Violations = append(out.Violations, ViolRec{RunIndex: i, RunSeed: r.RunSeed, Profile: p.Name, Config: r.Config, Actions: r.Trace, Violation: v, Digest: r.Digest})
					}
				}
			}
		}
	}
	out.WallS = time.Since(t0).Seconds()
	for h := range states {
		out.StateHashes = append(out.StateHashes, h)
	}
	sort.Slice(out.StateHashes, func(i, j int) bool { return out.StateHashes[i] < out.StateHashes[j] })
	for b := range bigrams {
		out.Bigrams = append(out.Bigrams, b)
	}
	sort.Slice(out.Bigrams, func(i, j int) bool { return out.Bigrams[i] < out.Bigrams[j] })
	return out
}

func hexVal(c byte) int {
	switch {
	case c >= '0' && c <= '9':
		return int(c - '0')
	case c >= 'a' && c <= 'f':
		return int(c-'a') + 10
	}
	return 0
}

func makeSample(r *RunResult, profile string, maxActs int) Sample {
	s := Sample{RunIndex: r.RunIndex, RunSeed: r.RunSeed, Profile: profile, Config: r.Config, Total: len(r.Trace), Digest: r.Digest}
	for i, a := range r.Trace {
		if i >= maxActs {
			break
		}
		s.Actions = append(s.Actions, a.String())
	}
	if r.Heal != nil {
		if r.Heal.Converged {
			s.Heal = "converged"
		} else if r.Heal.Exempt != "" {
			s.Heal = "exempt: " + r.Heal.Exempt
		} else {
			s.Heal = "not converged"
		}
	}
	return s
}

// A run that takes absurdly long (a loop inside the code under test, or in the
// simulator) must not hang the check: the worker gives up with a diagnostic
// and a distinct exit status; the parent reports a tool problem (exit 2).
var wdStop = make(chan struct{}, 1)

// RunWallLimit is the per-run wall clock limit.
var RunWallLimit = func() time.Duration {
	if v, err := strconv.Atoi(os.Getenv("VERIF_RUN_WALL_S")); err == nil && v > 0 {
		return time.Duration(v) * time.Second
	}
	return 240 * time.Second
}()

// abortRun asks the executor to give the current run up (checked once per
// action; reading it does not influence the simulation).
var abortRun atomic.Bool

// abortCh is closed together with abortRun being set; goroutine hand-offs of
// the node driver (E3) that would otherwise wait for ever select on it.
var (
	abortMu sync.Mutex
	abortCh = make(chan struct{})
)

func currentAbort() <-chan struct{} {
	abortMu.Lock()
	defer abortMu.Unlock()
	return abortCh
}

// runAbandoned is the panic value with which a blocked hand-off gives up.
type runAbandoned struct{}

func watchdogArm(profile string, i int) {
	select {
	case <-wdStop:
	default:
	}
	abortRun.Store(false)
	abortMu.Lock()
	abortCh = make(chan struct{})
	ch := abortCh
	abortMu.Unlock()
	go func() {
		select {
		case <-wdStop:
			return
		case <-time.After(RunWallLimit):
			// first the polite way: the executor ends the run at its next action
			// (the run is counted as abandoned, nothing is concluded from it)
			fmt.Fprintf(os.Stderr, "watchdog: run %d of profile %s exceeded %v, abandoning it\n", i, profile, RunWallLimit)
			abortRun.Store(true)
			close(ch)
		}
		select {
		case <-wdStop:
		case <-time.After(RunWallLimit):
			fmt.Fprintf(os.Stderr, "watchdog: run %d of profile %s does not return\n", i, profile)
			os.Exit(3)
		}
	}()
}

func watchdogDisarm() { wdStop <- struct{}{} }
