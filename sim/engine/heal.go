package engine

import (
	"fmt"
	"math/rand/v2"
	"strings"

	raft "go.etcd.io/raft/v3"
	pb "go.etcd.io/raft/v3/raftpb"
	"go.etcd.io/raft/v3/tracker"
)

// healActionCap bounds the work of one heal phase (typical phases need a few
// thousand actions).
const healActionCap = 250000

// HealResult summarises the heal phase.
type HealResult struct {
	Converged   bool
	Rounds      int
	Budget      int
	Exempt      string // non-empty: liveness not judged, with the reason
	StartProbes []string
}

// RunHeal is the deterministic heal phase (C15): faults stop, the members of
// the committed configuration run, everything else is stopped, every message
// is delivered within the round, snapshot outcomes are reported truthfully and
// every node is ticked once per round. It is a pure function of the cluster
// state and seed, so a replay re-runs it instead of replaying its actions.
func RunHeal(c *Cluster, seed uint64) *HealResult {
	res := &HealResult{}
	rng := rand.New(rand.NewPCG(seed, 0x4ea1))
	c.Do(Action{K: AHealPhase, I: int(seed & 0x7fffffff)})
	c.Do(Action{K: AHeal})
	maxET := 0
	for _, nc := range c.rc.Nodes {
		if nc.ElectionTick > maxET {
			maxET = nc.ElectionTick
		}
	}
	res.Budget = 60 * 2 * maxET
	res.StartProbes = healStartProbes(c)
	for _, p := range res.StartProbes {
		c.stats.probe("heal_start:" + p)
	}
	// no storage faults in the suffix
	for _, id := range c.ids {
		c.Do(Action{K: ASnapFault, N: id, I: 0})
	}
	startActions := c.stats.Actions
	probesLeft := 3
	probeTags := []int{}
	convergedOnce := false
	probeSeq := 0
	for round := 0; c.viol == nil; round++ {
		res.Rounds = round
		healMembership(c)
		if c.viol != nil {
			break
		}
		if why := healExempt(c); why != "" {
			res.Exempt = why
		}
		healDrain(c, rng)
		if c.viol != nil {
			break
		}
		why := converged(c)
		if why == "" {
			if !convergedOnce {
				convergedOnce = true
			}
			if probesLeft > 0 {
				// proposals accepted from now on must be committed and applied by everyone
				lead := healLeader(c)
				tag := 900000 + len(probeTags) + probeSeq*10
				if lead != 0 {
					c.Do(Action{K: APropose, N: lead, Tags: []int{tag}, I: 8})
					if p := c.chk.propState[tag]; p != nil && p.dropped == 0 {
						probeTags = append(probeTags, tag)
						probesLeft--
					} else {
						probeSeq++
					}
				}
				continue
			}
			if probesApplied(c, probeTags) {
				res.Converged = true
				return res
			}
		}
		limit := res.Budget
		if convergedOnce {
			limit = res.Budget + 20*2*maxET
		}
		// The heal phase is also bounded in work: a group that keeps exchanging
		// messages without settling has not converged either.
		if c.stats.Actions-startActions > healActionCap {
			why = firstNonEmpty(why, "probe proposals not applied everywhere") + fmt.Sprintf(" (heal phase action cap %d exhausted in round %d)", healActionCap, round)
			round = limit
		}
		if round >= limit {
			if res.Exempt == "" {
				msg := fmt.Sprintf("not converged after %d rounds (budget %d): %s", round, limit, firstNonEmpty(why, "probe proposals not applied everywhere"))
				if sq := staleQuorumStuck(c); sq != "" {
					// known finding F-M: see known_findings.json
					c.chk.report("C15", "lv.converged", nil, msg+"; "+sq, "lv.converged.stale_quorum")
				} else if st := staleTermRace(c); st != "" {
					// known finding F-N: see known_findings.json
					c.chk.report("C15", "lv.converged", nil, msg+"; "+st, "lv.converged.stale_term")
				} else if strings.Contains(why, "auto-leave still active") {
					// C10: a leader leaves an auto-leave joint configuration by itself once applied
					c.chk.report2("C15", "lv.converged", "C10", "mc.autoleave_done", nil, msg, "lv.converged")
				} else {
					c.chk.report("C15", "lv.converged", nil, msg, "lv.converged")
				}
			}
			return res
		}
		// A live application keeps taking snapshots of its applied state, so that
		// Storage.Snapshot() eventually reflects the current membership (A13).
		if round%maxET == maxET-1 {
			for _, id := range c.ids {
				if n := c.nodes[id]; n.up {
					c.Do(Action{K: ACompact, N: id, I: 0, J: 1 << 30, B: true})
				}
			}
		}
		// one tick per running node, in a seeded order
		ids := append([]uint64(nil), c.ids...)
		rng.Shuffle(len(ids), func(i, j int) { ids[i], ids[j] = ids[j], ids[i] })
		for _, id := range ids {
			if c.nodes[id].up {
				c.Do(Action{K: ATick, N: id})
			}
		}
	}
	return res
}

func firstNonEmpty(a, b string) string {
	if a != "" {
		return a
	}
	return b
}

// healMembership starts the members of the committed configuration and stops
// everyone else (omniscient bookkeeping over the committed sequence).
func healMembership(c *Cluster) {
	conf := c.chk.confAt(c.chk.gMax())
	members := conf.Members()
	for _, id := range c.ids {
		n := c.nodes[id]
		if members[id] {
			if !n.up && !n.stopped {
				c.Do(Action{K: ARestart, N: id, I: -1})
			}
		} else if !n.stopped && n.started {
			c.Do(Action{K: AStop, N: id})
		}
	}
}

// healExempt implements the documented exception: a voter removed or demoted
// out of a two-voter set.
func healExempt(c *Cluster) string {
	prev := c.chk.confInit
	for _, r := range c.chk.confs {
		if len(prev.I) == 2 && len(prev.O) == 0 {
			for v := range prev.I {
				if !r.conf.I[v] {
					return fmt.Sprintf("voter %d left the two-voter configuration at index %d (documented exception)", v, r.index)
				}
			}
		}
		prev = r.conf
	}
	// Mixed settings: a node with neither CheckQuorum nor PreVote whose term ran
	// ahead is ignored by CheckQuorum peers (lease) and ignores their lower-term
	// traffic; raft documents the term-advancing reply only for nodes that have
	// one of the two options set. Such a group is mis-configured; liveness is not
	// judged.
	anyCQ, anyPlain := false, false
	for _, nc := range c.rc.Nodes {
		if nc.CheckQuorum {
			anyCQ = true
		}
		if !nc.CheckQuorum && !nc.PreVote {
			anyPlain = true
		}
	}
	if anyCQ && anyPlain {
		return "mixed CheckQuorum/plain configuration"
	}
	// Different election timeouts within one group: a node with a stale log and
	// a much shorter timeout pre-empts every election (no PreVote). The bound in
	// C15 is stated in election timeouts of one group-wide setting.
	for _, nc := range c.rc.Nodes {
		if nc.ElectionTick != c.rc.Nodes[0].ElectionTick {
			return "heterogeneous ElectionTick"
		}
	}
	// A member that had been stopped for good before healing cannot be brought back.
	conf := c.chk.confAt(c.chk.gMax())
	for id := range conf.Members() {
		if n := c.nodes[id]; n != nil && n.stopped {
			return fmt.Sprintf("member %d was stopped permanently", id)
		}
		if n := c.nodes[id]; n != nil && !n.up && !n.stopped {
			return fmt.Sprintf("member %d could not be restarted", id)
		}
	}
	return ""
}

// staleQuorumStuck recognises known finding F-M. There is no leader; no
// running node can win an election, by construction: for every running node v
// that is a voter in the configuration it has applied, the running nodes whose
// log is not more up to date than v's (the only ones that may grant v their
// vote) do not contain a majority of every voter set of *v's applied
// configuration*; and at least one running node has not applied the committed
// configuration. That is the state after a membership change whose commit
// never reached the survivors: the members that left were stopped, the demoted
// ones cannot lead, the nodes still in the old (joint) configuration need votes
// of members that are gone, and a node that knows the new configuration is
// refused by a survivor with a longer log. No implementation of the election
// could elect anybody in this state.
func staleQuorumStuck(c *Cluster) string {
	if healLeader(c) != 0 {
		return ""
	}
	want := c.chk.confAt(c.chk.gMax())
	stale := ""
	candidates := 0
	for _, id := range c.ids {
		n := c.nodes[id]
		if !n.up {
			continue
		}
		st := &n.st
		have := refConfFromLists(st.Voters, st.VotersOutgoing, st.Learners, st.LearnersNext, st.AutoLeave)
		if !have.Equal(want) && stale == "" && (len(st.Voters) > 0 || len(st.VotersOutgoing) > 0) {
			stale = fmt.Sprintf("node %d still has %s applied (commit %d), the committed configuration is %s", id, have, st.Committed, want)
		}
		if !inSet(st.Voters, id) && !inSet(st.VotersOutgoing, id) {
			continue
		}
		candidates++
		ct, ci := c.chk.nc[id].lastID()
		grants := func(u uint64) bool {
			if u == id {
				return true
			}
			m := c.nodes[u]
			if m == nil || !m.up {
				return false
			}
			ut, ui := c.chk.nc[u].lastID()
			return ct > ut || (ct == ut && ci >= ui)
		}
		if jointMaj(st.Voters, st.VotersOutgoing, grants) {
			return "" // this node can be elected by the running nodes
		}
	}
	if candidates == 0 || stale == "" {
		return ""
	}
	return "no running node can win an election (for each, the running nodes that may grant it their vote do not form the quorum of the configuration it has applied) and the committed configuration has not reached every survivor: " + stale
}

// electable reports whether the running nodes that may grant node id their vote
// (those whose log is not more up to date) contain the quorum of the
// configuration id has applied.
func electable(c *Cluster, id uint64) bool {
	n := c.nodes[id]
	if n == nil || !n.up {
		return false
	}
	st := &n.st
	if !inSet(st.Voters, id) && !inSet(st.VotersOutgoing, id) {
		return false
	}
	ct, ci := c.chk.nc[id].lastID()
	return jointMaj(st.Voters, st.VotersOutgoing, func(u uint64) bool {
		if u == id {
			return true
		}
		m := c.nodes[u]
		if m == nil || !m.up {
			return false
		}
		ut, ui := c.chk.nc[u].lastID()
		return ct > ut || (ct == ut && ci >= ui)
	})
}

// staleTermRace recognises known finding F-N: there is no leader although some
// node is electable, because a running node that has not applied the committed
// configuration (and cannot win in the one it has) keeps campaigning at a term
// above every electable node's, and its applied configuration contains none of
// them: it never sends them a vote request, it silently ignores their
// lower-term requests, and they catch up with its term only by the random walk
// of two election timers (no PreVote / CheckQuorum involved).
func staleTermRace(c *Cluster) string {
	if healLeader(c) != 0 {
		return ""
	}
	want := c.chk.confAt(c.chk.gMax())
	var el []uint64
	var maxEl uint64
	for _, id := range c.ids {
		if electable(c, id) {
			el = append(el, id)
			if t := c.nodes[id].st.Term; t > maxEl {
				maxEl = t
			}
		}
	}
	if len(el) == 0 {
		return ""
	}
	for _, id := range c.ids {
		n := c.nodes[id]
		if !n.up || electable(c, id) || n.cfg.PreVote || n.cfg.CheckQuorum {
			continue
		}
		st := &n.st
		if !inSet(st.Voters, id) && !inSet(st.VotersOutgoing, id) {
			continue
		}
		have := refConfFromLists(st.Voters, st.VotersOutgoing, st.Learners, st.LearnersNext, st.AutoLeave)
		if have.Equal(want) || st.Term <= maxEl {
			continue
		}
		knows := false
		for _, e := range el {
			if inSet(st.Voters, e) || inSet(st.VotersOutgoing, e) || inSet(st.Learners, e) || inSet(st.LearnersNext, e) {
				knows = true
			}
		}
		if !knows {
			return fmt.Sprintf("node %d (term %d) still has %s applied, cannot win in it, and keeps campaigning above the term (%d) of the electable node(s) %v, which its configuration does not contain: it never asks them for their vote and ignores their lower-term requests", id, st.Term, have, maxEl, el)
		}
	}
	return ""
}

func healLeader(c *Cluster) uint64 {
	var best, bt uint64
	for _, id := range c.ids {
		n := c.nodes[id]
		if n.up && n.st.State == raft.StateLeader && n.st.Term >= bt {
			best, bt = id, n.st.Term
		}
	}
	return best
}

// healDrain processes all Ready work and delivers all messages until the group
// is quiet (bounded).
func healDrain(c *Cluster, rng *rand.Rand) {
	for iter := 0; iter < 200 && c.viol == nil; iter++ {
		work := false
		for _, id := range c.ids {
			n := c.nodes[id]
			if !n.up {
				continue
			}
			for k := 0; k < 64 && n.up && c.viol == nil; k++ {
				did := false
				if n.cfg.Async {
					if c.Do(Action{K: AReady, N: id}) {
						did = true
					}
					for len(n.appendQ) > 0 && n.up && c.viol == nil {
						c.Do(Action{K: AAppendStep, N: id})
						did = true
					}
					for len(n.appendResps) > 0 && n.up && c.viol == nil {
						c.Do(Action{K: AAppendResp, N: id})
						did = true
					}
					for len(n.applyQ) > 0 && n.up && c.viol == nil {
						c.Do(Action{K: AApplyStep, N: id})
						did = true
					}
					for len(n.applyResps) > 0 && n.up && c.viol == nil {
						c.Do(Action{K: AApplyResp, N: id})
						did = true
					}
				} else {
					if n.rd == nil {
						if c.Do(Action{K: AReady, N: id}) {
							did = true
						}
					}
					if n.rd != nil {
						c.Do(Action{K: APersist, N: id})
						c.Do(Action{K: AApply, N: id})
						c.Do(Action{K: AAdvance, N: id})
						did = true
					}
				}
				if !did {
					break
				}
				work = true
			}
		}
		// deliver everything in flight, oldest first per link, links in id order
		for _, from := range c.ids {
			for _, to := range c.ids {
				k := linkKey{from, to}
				for len(c.links[k]) > 0 && c.viol == nil {
					f := c.links[k][0]
					delivered := c.nodes[to] != nil && c.nodes[to].up
					c.Do(Action{K: ADeliver, N: from, M: to, I: f.Seq})
					work = true
					if f.Type == pb.MsgSnap {
						c.Do(Action{K: ASnapReport, N: from, M: to, B: delivered})
					}
				}
			}
		}
		// pending snapshot transfers whose message was lost earlier: report failure
		for _, id := range c.ids {
			n := c.nodes[id]
			if !n.up || n.st.State != raft.StateLeader {
				continue
			}
			for _, pid := range n.st.ProgressIDs {
				if n.st.Progress[pid].State == tracker.StateSnapshot && len(c.links[linkKey{id, pid}]) == 0 && !hasQueuedSnap(n, pid) {
					if iter == 0 {
						c.Do(Action{K: ASnapReport, N: id, M: pid, B: false})
						work = true
					}
				}
			}
		}
		if !work {
			return
		}
	}
}

func hasQueuedSnap(n *Node, to uint64) bool {
	for _, m := range n.st.Msgs {
		if m.GetType() == pb.MsgSnap && m.GetTo() == to {
			return true
		}
	}
	if n.rd != nil {
		for _, m := range n.rd.Messages {
			if m.GetType() == pb.MsgSnap && m.GetTo() == to {
				return true
			}
		}
	}
	return false
}

// converged returns "" when the C15 end state holds, else the first reason.
func converged(c *Cluster) string {
	conf := c.chk.confAt(c.chk.gMax())
	members := sortedKeys(conf.Members())
	var leader uint64
	nLeaders := 0
	for _, id := range members {
		n := c.nodes[id]
		if n == nil || !n.up {
			return fmt.Sprintf("member %d is not running", id)
		}
		if n.st.State == raft.StateLeader {
			nLeaders++
			leader = id
		}
	}
	if nLeaders != 1 {
		return fmt.Sprintf("%d leaders among the members", nLeaders)
	}
	ln := c.nodes[leader]
	if conf.Joint() && conf.Auto {
		return "joint configuration with auto-leave still active"
	}
	if ln.st.LeadTransferee != 0 {
		return "leader has a pending leadership transfer"
	}
	last, commit := ln.st.LastIndex, ln.st.Committed
	if commit != last {
		return fmt.Sprintf("leader commit %d != last %d", commit, last)
	}
	if last != c.chk.gMax() {
		return fmt.Sprintf("leader last index %d != globally committed %d", last, c.chk.gMax())
	}
	for _, id := range members {
		n := c.nodes[id]
		st := &n.st
		if st.Lead != leader {
			return fmt.Sprintf("member %d names %d as leader, not %d", id, st.Lead, leader)
		}
		if st.Term != ln.st.Term {
			return fmt.Sprintf("member %d at term %d, leader at %d", id, st.Term, ln.st.Term)
		}
		if st.LastIndex != last || st.Committed != commit || st.Applied != commit {
			return fmt.Sprintf("member %d at last=%d commit=%d applied=%d, leader at %d/%d", id, st.LastIndex, st.Committed, st.Applied, last, commit)
		}
		if n.app.cur.Index != commit {
			return fmt.Sprintf("member %d state machine at %d, commit %d", id, n.app.cur.Index, commit)
		}
		if len(st.UnstableEntries) > 0 || st.UnstableSnapshot != nil {
			return fmt.Sprintf("member %d has unstable entries/snapshot left", id)
		}
		if len(n.appendQ)+len(n.appendResps)+len(n.applyQ)+len(n.applyResps) > 0 || n.rd != nil {
			return fmt.Sprintf("member %d has queued storage work", id)
		}
		got := refConfFromLists(st.Voters, st.VotersOutgoing, st.Learners, st.LearnersNext, st.AutoLeave)
		if !got.Equal(conf) {
			return fmt.Sprintf("member %d configuration %s != committed configuration %s", id, got, conf)
		}
	}
	for _, pid := range ln.st.ProgressIDs {
		pr := ln.st.Progress[pid]
		if pr.State == tracker.StateSnapshot {
			return fmt.Sprintf("leader still sends a snapshot to %d", pid)
		}
		if pr.Match < last {
			return fmt.Sprintf("leader's match for %d is %d < %d", pid, pr.Match, last)
		}
		if pr.State != tracker.StateReplicate && pid != leader {
			return fmt.Sprintf("leader's progress for %d is %s", pid, pr.State)
		}
	}
	return ""
}

func probesApplied(c *Cluster, tags []int) bool {
	conf := c.chk.confAt(c.chk.gMax())
	for _, tag := range tags {
		if _, ok := c.chk.lin.commit[tag]; !ok {
			return false
		}
		for id := range conf.Members() {
			n := c.nodes[id]
			if n == nil || !n.up || !n.app.cur.seen(tag) {
				return false
			}
		}
	}
	return true
}

// healStartProbes names the hard situations present when healing starts.
func healStartProbes(c *Cluster) []string {
	var out []string
	add := func(s string) {
		for _, o := range out {
			if o == s {
				return
			}
		}
		out = append(out, s)
	}
	var minTerm, maxTerm uint64 = ^uint64(0), 0
	for _, id := range c.ids {
		n := c.nodes[id]
		if !n.up {
			if !n.stopped && n.started {
				add("node_down")
			}
			continue
		}
		st := &n.st
		if st.Term < minTerm {
			minTerm = st.Term
		}
		if st.Term > maxTerm {
			maxTerm = st.Term
		}
		switch st.State {
		case raft.StateCandidate, raft.StatePreCandidate:
			add("election_in_progress")
		case raft.StateLeader:
			if st.LeadTransferee != 0 {
				add("transfer_in_flight")
			}
			for _, pid := range st.ProgressIDs {
				pr := st.Progress[pid]
				if pr.State == tracker.StateSnapshot {
					add("pending_snapshot")
				}
				if pr.InflightFull {
					add("inflights_full")
				}
			}
			if st.UnconfirmedReads > 0 || st.PendingReadIndex > 0 {
				add("pending_read")
			}
		}
		if st.LastIndex > st.Committed {
			add("uncommitted_tail")
		}
		if len(st.VotersOutgoing) > 0 {
			add("joint_config")
		}
		if st.UnstableSnapshot != nil {
			add("snapshot_install_outstanding")
		}
		if len(n.appendQ) > 1 {
			add("append_queue_backlog")
		}
	}
	if maxTerm > minTerm+3 && minTerm != ^uint64(0) {
		add("term_far_ahead")
	}
	if len(c.blocked) > 0 {
		add("partitioned")
	}
	if c.InFlight() > 0 {
		add("messages_in_flight")
	}
	return out
}

// DebugState renders every node's state (diagnostics for violation reports).
func (c *Cluster) DebugState() string {
	s := ""
	for _, id := range c.ids {
		n := c.nodes[id]
		if !n.up {
			s += fmt.Sprintf("node %d: down stopped=%v\n", id, n.stopped)
			continue
		}
		st := &n.st
		s += fmt.Sprintf("node %d: %s term=%d vote=%d lead=%d log=[%d,%d] commit=%d applied=%d app=%d unstable=%d/%v voters=%v out=%v learners=%v ln=%v auto=%v async=%v q=%d/%d/%d/%d rd=%v msgs=%d/%d\n",
			id, st.State, st.Term, st.Vote, st.Lead, st.FirstIndex, st.LastIndex, st.Committed, st.Applied, n.app.cur.Index, len(st.UnstableEntries), st.UnstableSnapshot != nil,
			st.Voters, st.VotersOutgoing, st.Learners, st.LearnersNext, st.AutoLeave, n.cfg.Async, len(n.appendQ), len(n.appendResps), len(n.applyQ), len(n.applyResps), n.rd != nil, len(st.Msgs), len(st.MsgsAfterAppend))
		if c.opt.Debug {
			s += "    log terms:"
			for _, e := range c.chk.nc[id].log {
				s += fmt.Sprintf(" %d:%d", e.GetIndex(), e.GetTerm())
			}
			s += fmt.Sprintf(" (prev term %d)\n", c.chk.nc[id].prevTerm)
			if vg := c.vg; vg != nil {
				s += vg.dump()
			}
		}
		if st.State == raft.StateLeader {
			for _, pid := range st.ProgressIDs {
				pr := st.Progress[pid]
				s += fmt.Sprintf("    progress %d: %s match=%d next=%d pendingSnap=%d active=%v paused=%v/%v inflight=%d learner=%v\n", pid, pr.State, pr.Match, pr.Next, pr.PendingSnapshot, pr.RecentActive, pr.MsgAppFlowPaused, pr.Paused, pr.InflightCount, pr.IsLearner)
			}
		}
	}
	return s
}
