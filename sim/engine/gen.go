package engine

import (
	"container/heap"
	"math/rand/v2"
	"sort"
	"strings"

	raft "go.etcd.io/raft/v3"
	pb "go.etcd.io/raft/v3/raftpb"
)

// Profile biases the swarm configuration and the workload towards the subject
// of one property. Every field is a weight, a probability or a bound; the
// per-run values are drawn from them.
type Profile struct {
	Name string

	MinVoters, MaxVoters int
	MaxLearners          int
	MaxJoiners           int
	PBootstrap           float64
	PAsync               float64 // per run: probability that async nodes exist; then per node 0.7
	PPreVote             float64
	PCheckQuorum         float64
	PLease               float64
	PStepDown            float64
	PNoForward           float64
	PNoValidate          float64
	PSmallLimits         float64
	PFaultFree           float64
	PSingleFault         float64

	MinActions, MaxActions int
	MaxProposals           int
	MaxConfChanges         int

	// client op weights
	WPropose, WBatch, WConf, WRead, WTransfer, WCampaign, WForget, WUnreach, WCompact, WCheckpoint, WSnapFault float64
	ClientRate                                                                                                 float64 // ops per tick
	// fault weights
	WCrash, WPartition, WHealF, WClockStall, WClockJump, WSlowNode, WStallThread float64
	FaultRate                                                                    float64 // faults per tick
	PDrop, PDup, PLate                                                           float64
	PTargetedCrash                                                               float64
	PCheckpointRestart                                                           float64
	PSplitSnapshot                                                               float64
	PZeroMsgSize                                                                 float64 // MaxSizePerMsg=0 together with MaxCommittedSizePerReady=0
	PUniform                                                                     float64 // group-wide PreVote/CheckQuorum/ElectionTick
	PCrashUndurableTerm                                                          float64 // crash a leader/candidate whose current term is not durable yet
	PLateType                                                                    float64 // per run: one message type is systematically delayed by election timeouts
	RemoveBias                                                                   float64 // probability that a membership change removes a voter other than the proposer
	HoldConfApply                                                                float64 // a node that has been handed a committed conf change stalls its application with this probability, and is then made to campaign
	HoldSnapshot                                                                 float64 // a node that has just accepted a snapshot is stalled (keeps the install pending) with this probability
	SnapChaos                                                                    float64 // MsgSnap is delayed by election timeouts / duplicated with this probability
	PNodeAPI                                                                     float64 // E3 nodesim: nodes are driven through the channel-based raft.Node
	StoreSim                                                                     bool    // E4 storesim: the in-memory storage on its own
	Follower                                                                     bool    // E2 followersim: one real node (learner) among abstract peers
	PWideIDs                                                                     float64 // node ids spread over the whole uint64 range (hash-style ids) instead of 1..n
	ShortElection                                                                bool
	AggressiveCompaction                                                         bool
	HeavyProposals                                                               bool
}

// DefaultProfile is the union profile.
func DefaultProfile() Profile {
	return Profile{
		Name:      "default",
		MinVoters: 1, MaxVoters: 5, MaxLearners: 2, MaxJoiners: 2,
		PBootstrap: 0.2, PAsync: 0.5, PPreVote: 0.5, PCheckQuorum: 0.5, PLease: 0.05, PStepDown: 0.5,
		PNoForward: 0.15, PNoValidate: 0.0, PSmallLimits: 0.5, PFaultFree: 0.15, PSingleFault: 0.1,
		MinActions: 400, MaxActions: 3000, MaxProposals: 80, MaxConfChanges: 6,
		WPropose: 10, WBatch: 2, WConf: 1.2, WRead: 3, WTransfer: 0.6, WCampaign: 0.3, WForget: 0.2, WUnreach: 0.3, WCompact: 1.5, WCheckpoint: 0.5, WSnapFault: 0.1,
		ClientRate: 0.5,
		WCrash:     3, WPartition: 2, WHealF: 2, WClockStall: 0.7, WClockJump: 0.7, WSlowNode: 0.7, WStallThread: 0.7,
		FaultRate: 0.05,
		PDrop:     0.03, PDup: 0.03, PLate: 0.02,
		PTargetedCrash: 0.03, PCheckpointRestart: 0.3, PUniform: 0.75, PZeroMsgSize: 0.01, PLateType: 0.3, PWideIDs: 0.15,
	}
}

// event kinds of the generator's discrete-event simulation
type evKind uint8

const (
	evTick evKind = iota
	evPump
	evDeliver
	evDrop
	evAppendThread
	evApplyThread
	evClient
	evFault
	evSnapReport
	evRestart
	evClockResume
	evCampaign
	evFollowUp
	evIsolate
)

type event struct {
	at   int64
	seq  uint64
	kind evKind
	n    uint64
	m    uint64
	f    *Flight
	keep bool
	ok   bool
	arg  int
}

type evHeap []*event

func (h evHeap) Len() int { return len(h) }
func (h evHeap) Less(i, j int) bool {
	if h[i].at != h[j].at {
		return h[i].at < h[j].at
	}
	return h[i].seq < h[j].seq
}
func (h evHeap) Swap(i, j int)       { h[i], h[j] = h[j], h[i] }
func (h *evHeap) Push(x interface{}) { *h = append(*h, x.(*event)) }
func (h *evHeap) Pop() interface{} {
	old := *h
	n := len(old)
	x := old[n-1]
	*h = old[:n-1]
	return x
}

const tickUnit = 1000 // micro-ticks per nominal tick

type genNode struct {
	period        int64 // micro-ticks per tick (skew)
	pumpScheduled bool
	appendSched   bool
	applySched    bool
	stalledUntil  int64
	slowUntil     int64
	threadStall   int64
	restartAt     int64
	heldSnap      bool
	applyStall    int64
	heldConf      bool
}

// Gen drives one run: it owns the PRNG and the simulated clock, turns events
// into actions and executes them through the Cluster.
type Gen struct {
	rng   *rand.Rand
	c     *Cluster
	p     Profile
	now   int64
	seq   uint64
	h     evHeap
	gn    map[uint64]*genNode
	maxET int

	nextTag            int
	nextCtx            int
	proposals          int
	confChanges        int
	removed            map[uint64]bool
	maxActions         int
	faultFree          bool
	onlyFault          string
	dropP, dupP, lateP float64
	fastNet            bool
	ckptRestart        float64
	clientRate         float64
	faultRate          float64
	lateType           pb.MessageType
	lateTypeP          float64
	exploited          bool // the first violation of another property has been followed up
	lastCtx            map[uint64]int
	// swarm: per-run multipliers of the profile's workload, fault and E2 model
	// weights (drawn once per run), so that within one profile some runs are
	// dominated by membership changes, some by compaction and snapshots, some
	// by elections, ...
	mulClient, mulFault, mulVirtual []float64
	ssWeights                       []float64 // E4: append, install snapshot, create snapshot, compact, query
}

func pick(rng *rand.Rand, ws []float64) int {
	var t float64
	for _, w := range ws {
		t += w
	}
	if t <= 0 {
		return -1
	}
	x := rng.Float64() * t
	for i, w := range ws {
		if x < w {
			return i
		}
		x -= w
	}
	return len(ws) - 1
}

func chance(rng *rand.Rand, p float64) bool { return p > 0 && rng.Float64() < p }

// DrawConfig draws the swarm configuration of a run.
func DrawConfig(rng *rand.Rand, p Profile, runSeed uint64) RunConfig {
	rc := RunConfig{Seed: runSeed, NKeys: 1 + rng.IntN(3)}
	nv := p.MinVoters + rng.IntN(p.MaxVoters-p.MinVoters+1)
	nl := 0
	if p.MaxLearners > 0 && nv < 5 && chance(rng, 0.3) {
		nl = 1 + rng.IntN(p.MaxLearners)
	}
	for nv+nl > 5 {
		nl--
	}
	nj := 0
	if p.MaxJoiners > 0 && chance(rng, 0.5) {
		nj = 1 + rng.IntN(p.MaxJoiners)
	}
	rc.Bootstrap = chance(rng, p.PBootstrap)
	if rc.Bootstrap {
		nl = 0
	} else {
		rc.BaseIndex = uint64(2 + rng.IntN(8))
	}
	anyAsync := chance(rng, p.PAsync)
	// PreVote / CheckQuorum are group-wide in most runs, mixed per node in some.
	uniform := chance(rng, p.PUniform)
	uPreVote, uCheckQuorum := chance(rng, p.PPreVote), chance(rng, p.PCheckQuorum)
	// ElectionTick / HeartbeatTick are a property of the group in most runs.
	uniformTicks := uniform || chance(rng, 0.3)
	uET := 3 + rng.IntN(10)
	if p.ShortElection {
		uET = 3 + rng.IntN(4)
	}
	uHT := 1 + rng.IntN(min(3, uET-1))
	small := chance(rng, p.PSmallLimits)
	zeroMsg := chance(rng, p.PZeroMsgSize)
	id := uint64(1)
	for i := 0; i < nv+nl+nj; i++ {
		nc := NodeCfg{ID: id}
		if p.ShortElection {
			nc.ElectionTick = 3 + rng.IntN(4)
		} else {
			nc.ElectionTick = 3 + rng.IntN(10)
		}
		nc.HeartbeatTick = 1 + rng.IntN(min(3, nc.ElectionTick-1))
		if uniformTicks {
			nc.ElectionTick, nc.HeartbeatTick = uET, uHT
		}
		nc.PreVote = chance(rng, p.PPreVote)
		nc.CheckQuorum = chance(rng, p.PCheckQuorum)
		if uniform {
			nc.PreVote, nc.CheckQuorum = uPreVote, uCheckQuorum
		}
		if anyAsync {
			nc.Async = chance(rng, 0.7)
		}
		nc.StepDownOnRemoval = chance(rng, p.PStepDown)
		if chance(rng, p.PLease) {
			nc.LeaseBased, nc.CheckQuorum = true, true
		}
		nc.DisableProposalForwarding = chance(rng, p.PNoForward)
		nc.DisableConfChangeValidation = chance(rng, p.PNoValidate)
		if small {
			nc.MaxSizePerMsg = []uint64{1, 40, 120, 400, 4096, ^uint64(0)}[rng.IntN(6)]
			nc.MaxCommittedSizePerReady = []uint64{0, 1, 60, 300, ^uint64(0)}[rng.IntN(5)]
			nc.MaxUncommittedEntriesSize = []uint64{0, 1, 80, 400, 4000}[rng.IntN(5)]
			nc.MaxInflightMsgs = []int{1, 2, 3, 8, 256}[rng.IntN(5)]
			if chance(rng, 0.4) && nc.MaxSizePerMsg != ^uint64(0) {
				nc.MaxInflightBytes = nc.MaxSizePerMsg + uint64(rng.IntN(300))
			}
		} else {
			nc.MaxSizePerMsg = 1 << 20
			nc.MaxInflightMsgs = 256
		}
		if zeroMsg {
			nc.MaxSizePerMsg, nc.MaxCommittedSizePerReady, nc.MaxInflightBytes = 0, 0, 0
		}
		rc.Nodes = append(rc.Nodes, nc)
		switch {
		case i < nv:
			rc.Voters = append(rc.Voters, id)
		case i < nv+nl:
			rc.Learners = append(rc.Learners, id)
		}
		id++
	}
	rc.SplitSnapshot = chance(rng, p.PSplitSnapshot)
	rc.NodeAPI = chance(rng, p.PNodeAPI)
	rc.ByRef = !p.Follower && !p.StoreSim && chance(rng, 0.12)
	if p.StoreSim {
		rc.Nodes = []NodeCfg{rc.Nodes[0]}
		rc.Voters, rc.Learners = []uint64{rc.Nodes[0].ID}, nil
		rc.Bootstrap, rc.NodeAPI, rc.StoreSim = false, false, true
		rc.BaseIndex = uint64(1 + rng.IntN(9))
		return rc
	}
	if p.Follower {
		// one real node (id 1, a learner), three or five abstract voters
		real := rc.Nodes[0]
		rc.Nodes = []NodeCfg{real}
		rc.Bootstrap = false
		if rc.BaseIndex == 0 {
			rc.BaseIndex = uint64(2 + rng.IntN(8))
		}
		nv := 3
		if chance(rng, 0.4) {
			nv = 5
		}
		rc.Voters, rc.Virtual = nil, nil
		for i := 0; i < nv; i++ {
			rc.Voters = append(rc.Voters, uint64(2+i))
			rc.Virtual = append(rc.Virtual, uint64(2+i))
		}
		rc.Learners = []uint64{real.ID}
		return rc
	}
	if chance(rng, p.PWideIDs) {
		// hash-style ids: i -> i*0x2222222222222222 + 0x11 (spread over the whole range)
		wide := func(id uint64) uint64 { return id*0x2222222222222222 + 0x11 }
		for i := range rc.Nodes {
			rc.Nodes[i].ID = wide(rc.Nodes[i].ID)
		}
		for i := range rc.Voters {
			rc.Voters[i] = wide(rc.Voters[i])
		}
		for i := range rc.Learners {
			rc.Learners[i] = wide(rc.Learners[i])
		}
	}
	return rc
}

// NewGen creates the generator and the cluster for one run.
func NewGen(runSeed uint64, p Profile, opt Options) *Gen {
	rng := rand.New(rand.NewPCG(runSeed, Mix(runSeed, 0x9e11)))
	rc := DrawConfig(rng, p, runSeed)
	g := &Gen{rng: rng, p: p, gn: map[uint64]*genNode{}, removed: map[uint64]bool{}, lastCtx: map[uint64]int{}}
	g.c = NewCluster(rc, opt)
	g.maxActions = p.MinActions + rng.IntN(p.MaxActions-p.MinActions+1)
	if rc.StoreSim {
		// short runs, many of them; the mix of the parties varies per run
		g.maxActions = 5 + rng.IntN(60)
		g.ssWeights = []float64{6, 1.5, 1.5, 1.5, 1}
		for i := range g.ssWeights {
			if chance(rng, 0.35) {
				g.ssWeights[i] *= []float64{0.2, 0.5, 2, 4}[rng.IntN(4)]
			}
		}
		return g
	}
	g.faultFree = chance(rng, p.PFaultFree)
	if !g.faultFree && chance(rng, p.PSingleFault) {
		g.onlyFault = []string{"crash", "partition", "drop", "dup", "clock", "slow"}[rng.IntN(6)]
	}
	g.dropP, g.dupP, g.lateP = p.PDrop*rng.Float64()*2, p.PDup*rng.Float64()*2, p.PLate*rng.Float64()*2
	g.fastNet = chance(rng, 0.6)
	g.ckptRestart = p.PCheckpointRestart
	g.clientRate = p.ClientRate * (0.3 + 1.4*rng.Float64())
	g.faultRate = p.FaultRate * (0.2 + 1.8*rng.Float64())
	g.lateType = -1
	if chance(rng, p.PLateType) {
		types := []pb.MessageType{pb.MsgTimeoutNow, pb.MsgVote, pb.MsgVoteResp, pb.MsgPreVote, pb.MsgPreVoteResp, pb.MsgApp, pb.MsgAppResp,
			pb.MsgSnap, pb.MsgHeartbeat, pb.MsgHeartbeatResp, pb.MsgReadIndex, pb.MsgReadIndexResp, pb.MsgProp, pb.MsgTransferLeader}
		g.lateType = types[rng.IntN(len(types))]
		g.lateTypeP = 0.2 + 0.7*rng.Float64()
	}
	if g.faultFree {
		g.dropP, g.dupP, g.lateP, g.faultRate = 0, 0, 0, 0
		g.lateType = -1
	}
	switch g.onlyFault {
	case "crash", "partition", "clock", "slow":
		g.dropP, g.dupP, g.lateP = 0, 0, 0
	case "drop":
		g.dupP, g.lateP, g.faultRate = 0, 0, 0
		g.dropP = 0.1
	case "dup":
		g.dropP, g.lateP, g.faultRate = 0, 0, 0
		g.dupP = 0.15
	}
	for _, nc := range rc.Nodes {
		skew := 0.5 + 1.5*rng.Float64()
		if chance(rng, 0.5) {
			skew = 0.9 + 0.2*rng.Float64()
		}
		gn := &genNode{period: int64(float64(tickUnit) * skew)}
		g.gn[nc.ID] = gn
		if nc.ElectionTick > g.maxET {
			g.maxET = nc.ElectionTick
		}
		g.schedule(&event{at: int64(rng.IntN(int(gn.period))) + 1, kind: evTick, n: nc.ID})
	}
	g.schedule(&event{at: g.expDelay(g.clientRate), kind: evClient})
	if g.faultRate > 0 {
		g.schedule(&event{at: g.expDelay(g.faultRate), kind: evFault})
	}
	g.nextTag = 1
	g.nextCtx = 1
	swarm := func(n int) []float64 {
		m := make([]float64, n)
		for i := range m {
			m[i] = 1
			if chance(rng, 0.35) {
				m[i] = []float64{0.2, 0.5, 2, 4}[rng.IntN(4)]
			}
		}
		return m
	}
	g.mulClient, g.mulFault, g.mulVirtual = swarm(11), swarm(7), swarm(10)
	g.after()
	return g
}

func (g *Gen) Cluster() *Cluster { return g.c }

func (g *Gen) schedule(e *event) {
	g.seq++
	e.seq = g.seq
	heap.Push(&g.h, e)
}

// expDelay draws an exponential inter-arrival time for a rate per tick.
func (g *Gen) expDelay(rate float64) int64 {
	if rate <= 0 {
		return 1 << 50
	}
	d := g.rng.ExpFloat64() / rate * tickUnit
	if d > 50*tickUnit {
		d = 50 * tickUnit
	}
	return g.now + int64(d) + 1
}

func (g *Gen) do(a Action) bool { return g.c.Do(a) }

// RunChaos runs the fault-injecting phase.
func (g *Gen) RunChaos() {
	c := g.c
	if c.ss != nil {
		for c.viol == nil && c.stats.Actions < g.maxActions {
			g.storeOp()
		}
		return
	}
	for c.viol == nil && c.stats.Actions < g.maxActions && g.h.Len() > 0 {
		e := heap.Pop(&g.h).(*event)
		if e.at > g.now {
			g.now = e.at
		}
		g.handle(e)
		g.after()
	}
}

func (g *Gen) netDelay() int64 {
	r := g.rng.Float64()
	switch {
	case g.lateP > 0 && r < g.lateP:
		return int64((1 + 3*g.rng.Float64()) * float64(g.maxET) * tickUnit)
	case g.fastNet:
		return int64((0.05 + 0.25*g.rng.Float64()) * tickUnit)
	default:
		return int64((0.2 + 3*g.rng.Float64()) * tickUnit)
	}
}

// after inspects what the last action(s) produced and schedules follow-ups.
func (g *Gen) after() {
	c := g.c
	for _, f := range c.NewFlights {
		if chance(g.rng, g.dropP) {
			g.schedule(&event{at: g.now + 1, kind: evDrop, f: f})
			continue
		}
		d := g.netDelay()
		if f.Type == g.lateType && chance(g.rng, g.lateTypeP) {
			d = int64((0.3 + 2.5*g.rng.Float64()) * float64(g.maxET) * tickUnit)
			c.stats.fault("msg_type_delayed")
		}
		if f.Type == pb.MsgSnap && g.p.SnapChaos > 0 && !g.faultFree {
			if chance(g.rng, g.p.SnapChaos) {
				d = int64((0.5 + 4*g.rng.Float64()) * float64(g.maxET) * tickUnit)
				c.stats.fault("snapshot_delayed")
			}
			if chance(g.rng, g.p.SnapChaos/2) {
				g.schedule(&event{at: g.now + d, kind: evDeliver, f: f, keep: true})
				g.schedule(&event{at: g.now + d + g.netDelay()*4, kind: evDeliver, f: f})
				continue
			}
		}
		if chance(g.rng, g.dupP) {
			g.schedule(&event{at: g.now + d, kind: evDeliver, f: f, keep: true})
			g.schedule(&event{at: g.now + d + g.netDelay(), kind: evDeliver, f: f})
		} else {
			g.schedule(&event{at: g.now + d, kind: evDeliver, f: f})
		}
	}
	c.NewFlights = c.NewFlights[:0]
	for _, k := range c.SnapSent {
		ok := !chance(g.rng, 0.2)
		g.schedule(&event{at: g.now + g.netDelay()*3 + tickUnit, kind: evSnapReport, n: k.from, m: k.to, ok: ok})
	}
	c.SnapSent = c.SnapSent[:0]
	// monitor-guided fault: the first time an oracle of *another* property fires
	// at a node (the run goes on, see Checker.report), crash that node at once,
	// losing everything that is not durable, and restart it soon. On a tree on
	// which that other property is broken this is the fault that most often
	// turns the local anomaly (a promise that is not durable, a hard state that
	// was not exposed, a log view that disagrees with storage) into a violation
	// of the property under check. On a tree on which every property holds no
	// oracle fires and nothing is drawn.
	if f := c.foreign; f != nil && !g.exploited {
		g.exploited = true
		if n := c.nodes[f.Node]; n != nil && n.up && !g.faultFree && c.viol == nil {
			switch r := g.rng.Float64(); {
			case r < 0.45:
				c.stats.fault("crash_following_foreign_violation")
				g.do(Action{K: ACrash, N: n.id, I: 0, J: 0})
				down := int64((0.1 + 1.0*g.rng.Float64()) * float64(n.cfg.ElectionTick) * tickUnit)
				g.schedule(&event{at: g.now + down, kind: evRestart, n: n.id})
				// ... and once it is back, let it stand for election while the current
				// leader is cut off: a node that has lost what it promised, or whose
				// log or hard state is not what it should be, does its damage as a
				// leader or as a voter
				if chance(g.rng, 0.7) {
					g.schedule(&event{at: g.now + down + int64((0.2+1.5*g.rng.Float64())*tickUnit), kind: evFollowUp, n: n.id})
				}
			case r < 0.85:
				// or leave it running and cut it off from the others a little later
				// (what it has just sent still goes out): a leader that accepted or
				// committed what it should not have keeps acting on it on its side
				// of the cut while the others elect somebody else
				g.schedule(&event{at: g.now + int64((0.3+3*g.rng.Float64())*tickUnit), kind: evIsolate, n: n.id})
			}
		}
	}
	for _, id := range c.ids {
		n := c.nodes[id]
		gn := g.gn[id]
		if !n.up {
			continue
		}
		// targeted: keep a freshly accepted snapshot pending for a while
		if g.p.HoldSnapshot > 0 && n.st.UnstableSnapshot != nil && !gn.heldSnap && g.allow("slow") {
			gn.heldSnap = true
			if n.cfg.Async && len(n.applyQ)+len(n.applyResps) > 0 && chance(g.rng, g.p.HoldSnapshot) {
				// the apply thread is still busy with older entries: let the
				// snapshot overtake it
				gn.applyStall = g.now + int64((2+5*g.rng.Float64())*float64(g.maxET)*tickUnit)
				c.stats.fault("apply_thread_overtaken_by_snapshot")
			} else if chance(g.rng, g.p.HoldSnapshot) {
				d := g.now + int64((1+4*g.rng.Float64())*float64(g.maxET)*tickUnit)
				gn.slowUntil, gn.threadStall = d, d
				c.stats.fault("snapshot_install_held")
			}
		} else if n.st.UnstableSnapshot == nil {
			gn.heldSnap = false
		}
		// targeted: the window in which a committed conf change has been handed
		// to the application and is not applied yet
		if g.p.HoldConfApply > 0 && g.allow("slow") {
			if c.confChangeHandedOut(n) {
				if !gn.heldConf {
					gn.heldConf = true
					if chance(g.rng, g.p.HoldConfApply) {
						d := g.now + int64((1+5*g.rng.Float64())*float64(g.maxET)*tickUnit)
						gn.slowUntil, gn.applyStall = d, d
						c.stats.fault("conf_change_apply_held")
						if chance(g.rng, 0.6) {
							g.schedule(&event{at: g.now + int64((0.2+2*g.rng.Float64())*tickUnit), kind: evCampaign, n: id})
						}
					}
				}
			} else {
				gn.heldConf = false
			}
		}
		// targeted: a leader (or candidate) whose term/vote is not on disk yet
		if g.p.PCrashUndurableTerm > 0 && n.st.State != raft.StateFollower && n.disk.dur.hs.GetTerm() < n.st.Term && g.allow("crash") && c.viol == nil {
			pc := g.p.PCrashUndurableTerm
			if n.st.State == raft.StateLeader {
				pc *= 4
			}
			if chance(g.rng, pc) {
				c.stats.probe("crash_with_undurable_term")
				g.do(Action{K: ACrash, N: id, I: 0, J: 0})
				down := int64((0.2 + 1.5*g.rng.Float64()) * float64(n.cfg.ElectionTick) * tickUnit)
				g.schedule(&event{at: g.now + down, kind: evRestart, n: id})
				continue
			}
		}
		if !gn.pumpScheduled && g.needsPump(n) {
			gn.pumpScheduled = true
			d := int64((0.02 + 0.2*g.rng.Float64()) * tickUnit)
			if gn.slowUntil > g.now {
				d = int64((1 + 4*g.rng.Float64()) * tickUnit)
			}
			g.schedule(&event{at: g.now + d, kind: evPump, n: id})
		}
		if n.cfg.Async {
			if !gn.appendSched && (len(n.appendQ) > 0 || len(n.appendResps) > 0) {
				gn.appendSched = true
				d := int64((0.05 + 0.6*g.rng.Float64()) * tickUnit)
				if gn.threadStall > g.now {
					d += gn.threadStall - g.now
				}
				g.schedule(&event{at: g.now + d, kind: evAppendThread, n: id})
			}
			if !gn.applySched && (len(n.applyQ) > 0 || len(n.applyResps) > 0) {
				gn.applySched = true
				d := int64((0.05 + 0.6*g.rng.Float64()) * tickUnit)
				if gn.threadStall > g.now && chance(g.rng, 0.5) {
					d += gn.threadStall - g.now
				}
				if gn.applyStall > g.now+d {
					d = gn.applyStall - g.now
				}
				g.schedule(&event{at: g.now + d, kind: evApplyThread, n: id})
			}
		}
	}
}

func (g *Gen) needsPump(n *Node) bool {
	if !n.up || n.rn == nil {
		return false
	}
	if !n.cfg.Async && n.rd != nil {
		return true
	}
	return g.c.hasReady(n)
}

// confChangeHandedOut reports whether the node's application holds a
// committed configuration change that it has not applied yet.
func (c *Cluster) confChangeHandedOut(n *Node) bool {
	if !n.up {
		return false
	}
	has := func(ents []*pb.Entry) bool {
		for _, e := range ents {
			if e.GetType() != pb.EntryNormal {
				return true
			}
		}
		return false
	}
	if n.rd != nil && !n.applied && has(n.rd.CommittedEntries) {
		return true
	}
	for _, m := range n.applyQ {
		if has(m.GetEntries()) {
			return true
		}
	}
	return false
}

// hasReady is a read-only query (guarded: a panic here is a finding too).
func (c *Cluster) hasReady(n *Node) bool {
	has := false
	if !c.guard(n, "HasReady", func() error { has = n.api.HasReady(); return nil }) {
		n.down()
	}
	return has
}

func (g *Gen) handle(e *event) {
	c := g.c
	switch e.kind {
	case evTick:
		gn := g.gn[e.n]
		if gn.stalledUntil > g.now {
			g.schedule(&event{at: gn.stalledUntil + 1, kind: evTick, n: e.n})
			return
		}
		g.do(Action{K: ATick, N: e.n})
		g.schedule(&event{at: g.now + gn.period, kind: evTick, n: e.n})
	case evPump:
		g.gn[e.n].pumpScheduled = false
		g.pump(c.nodes[e.n])
	case evDeliver:
		pos := c.FlightPos(e.f)
		if pos < 0 {
			return
		}
		g.do(Action{K: ADeliver, N: e.f.From, M: e.f.To, I: e.f.Seq, B: e.keep})
	case evDrop:
		pos := c.FlightPos(e.f)
		if pos < 0 {
			return
		}
		g.do(Action{K: ADrop, N: e.f.From, M: e.f.To, I: e.f.Seq})
	case evAppendThread:
		n := c.nodes[e.n]
		g.gn[e.n].appendSched = false
		if !n.up {
			return
		}
		// responses of completed writes first or the next write: both orders occur
		if len(n.appendResps) > 0 && (len(n.appendQ) == 0 || chance(g.rng, 0.6)) {
			g.do(Action{K: AAppendResp, N: e.n})
		} else if len(n.appendQ) > 0 {
			if chance(g.rng, g.p.PTargetedCrash) && !g.faultFree && g.allow("crash") {
				g.crash(n, true)
				return
			}
			g.do(Action{K: AAppendStep, N: e.n})
		}
	case evApplyThread:
		n := c.nodes[e.n]
		g.gn[e.n].applySched = false
		if !n.up {
			return
		}
		if len(n.applyResps) > 0 && (len(n.applyQ) == 0 || chance(g.rng, 0.6)) {
			g.do(Action{K: AApplyResp, N: e.n})
		} else if len(n.applyQ) > 0 {
			g.do(Action{K: AApplyStep, N: e.n})
		}
	case evClient:
		g.clientOp()
		g.schedule(&event{at: g.expDelay(g.clientRate), kind: evClient})
	case evFault:
		g.fault()
		g.schedule(&event{at: g.expDelay(g.faultRate), kind: evFault})
	case evIsolate:
		if n := c.nodes[e.n]; n.up && c.vg == nil && len(c.ids) > 1 {
			var rest []uint64
			for _, x := range c.ids {
				if x != e.n {
					rest = append(rest, x)
				}
			}
			c.stats.fault("isolation_following_foreign_violation")
			g.do(Action{K: APartition, Part: [][]uint64{{e.n}, rest}})
		}
	case evFollowUp:
		n := c.nodes[e.n]
		if !n.up || c.vg != nil {
			return
		}
		c.stats.fault("campaign_following_foreign_violation")
		if l := g.leaderID(); l != 0 && l != e.n && g.allow("partition") {
			var rest []uint64
			for _, x := range c.ids {
				if x != l {
					rest = append(rest, x)
				}
			}
			g.do(Action{K: APartition, Part: [][]uint64{{l}, rest}})
		}
		g.do(Action{K: ACampaign, N: e.n})
	case evCampaign:
		if n := c.nodes[e.n]; n.up && c.confChangeHandedOut(n) {
			c.stats.probe("campaign_call_with_conf_change_handed_out")
			g.do(Action{K: ACampaign, N: e.n})
		}
	case evSnapReport:
		g.do(Action{K: ASnapReport, N: e.n, M: e.m, B: e.ok})
	case evRestart:
		n := c.nodes[e.n]
		if n.up || n.stopped {
			return
		}
		i := -1
		if chance(g.rng, g.ckptRestart) {
			i = g.rng.IntN(3)
		}
		g.do(Action{K: ARestart, N: e.n, I: i})
	}
}

func (g *Gen) allow(kind string) bool {
	if g.faultFree {
		return false
	}
	return g.onlyFault == "" || g.onlyFault == kind
}

// pump performs the next stage of the node's Ready handling.
func (g *Gen) pump(n *Node) {
	if !n.up {
		return
	}
	if n.cfg.Async {
		g.do(Action{K: AReady, N: n.id})
		return
	}
	if n.rd == nil {
		g.do(Action{K: AReady, N: n.id})
		// targeted: crash between "vote cast / entries handed out" and persistence
		if n.up && n.rd != nil && n.rd.MustSync && chance(g.rng, g.p.PTargetedCrash) && g.allow("crash") {
			g.crash(n, true)
		}
		return
	}
	hasSnap := n.rd.Snapshot != nil && !raft.IsEmptySnap(n.rd.Snapshot)
	canPersist := !n.persisted
	canApply := !n.applied && (!hasSnap || n.persisted)
	switch {
	case canPersist && canApply:
		if chance(g.rng, 0.75) {
			g.do(Action{K: APersist, N: n.id})
		} else {
			g.do(Action{K: AApply, N: n.id})
		}
	case canPersist:
		g.do(Action{K: APersist, N: n.id})
	case canApply:
		g.do(Action{K: AApply, N: n.id})
	default:
		g.do(Action{K: AAdvance, N: n.id})
	}
}

func (g *Gen) upNodes() []uint64 {
	var ids []uint64
	for _, id := range g.c.ids {
		if g.c.nodes[id].up {
			ids = append(ids, id)
		}
	}
	return ids
}

func (g *Gen) leaderID() uint64 {
	var best uint64
	var bt uint64
	for _, id := range g.c.ids {
		n := g.c.nodes[id]
		if n.up && n.st.State == raft.StateLeader && n.st.Term >= bt {
			best, bt = id, n.st.Term
		}
	}
	return best
}

func (g *Gen) randomUp() uint64 {
	ids := g.upNodes()
	if len(ids) == 0 {
		return 0
	}
	return ids[g.rng.IntN(len(ids))]
}

func (g *Gen) targetNode(pLeader float64) uint64 {
	if l := g.leaderID(); l != 0 && chance(g.rng, pLeader) {
		return l
	}
	return g.randomUp()
}

func (g *Gen) payloadSize() int {
	if g.p.HeavyProposals && chance(g.rng, 0.5) {
		return []int{0, 30, 90, 200, 500}[g.rng.IntN(5)]
	}
	switch g.rng.IntN(10) {
	case 0:
		return 300 + g.rng.IntN(300)
	case 1, 2:
		return 60 + g.rng.IntN(100)
	}
	return g.rng.IntN(24)
}

func (g *Gen) clientOp() {
	if g.c.vg != nil {
		g.virtualOp()
		return
	}
	p := g.p
	ws := []float64{p.WPropose, p.WBatch, p.WConf, p.WRead, p.WTransfer, p.WCampaign, p.WForget, p.WUnreach, p.WCompact, p.WCheckpoint, p.WSnapFault}
	for i := range ws {
		ws[i] *= g.mulClient[i]
	}
	if g.proposals >= p.MaxProposals {
		ws[0], ws[1] = 0, 0
	}
	if g.confChanges >= p.MaxConfChanges {
		ws[2] = 0
	}
	if g.faultFree {
		ws[7], ws[10] = 0, 0
	}
	switch pick(g.rng, ws) {
	case 0:
		id := g.targetNode(0.6)
		if id == 0 {
			return
		}
		g.proposals++
		g.do(Action{K: APropose, N: id, Tags: []int{g.tag()}, I: g.payloadSize(), J: g.reuseBuffer(), M: g.cancelProposer()})
	case 1:
		id := g.targetNode(0.6)
		if id == 0 {
			return
		}
		k := 2 + g.rng.IntN(3)
		var tags []int
		for i := 0; i < k; i++ {
			tags = append(tags, g.tag())
		}
		g.proposals += k
		g.do(Action{K: APropose, N: id, Tags: tags, I: g.payloadSize(), B: true, J: g.reuseBuffer()})
	case 2:
		g.confChange()
	case 3:
		id := g.targetNode(0.4)
		if id == 0 {
			return
		}
		// duplicate request contexts: now and then a client re-uses a context
		// that was issued before, at this node or at another one (raft keys its
		// pending reads by context)
		if g.nextCtx > 0 && chance(g.rng, 0.08) {
			ctx := g.lastCtx[id]
			if ctx == 0 || chance(g.rng, 0.4) {
				ctx = 1 + g.rng.IntN(g.nextCtx)
			}
			g.c.stats.probe("read_context_reused")
			g.do(Action{K: AReadIndex, N: id, I: ctx})
			return
		}
		g.nextCtx++
		g.lastCtx[id] = g.nextCtx
		g.do(Action{K: AReadIndex, N: id, I: g.nextCtx})
		// read burst: many reads issued back to back at one node, so that the
		// leader's queue of unconfirmed reads grows long before the first
		// heartbeat response comes back (queue positions, prefix release,
		// forwarded and local requests interleaved)
		if chance(g.rng, 0.05) {
			k := 6 + g.rng.IntN(40)
			if chance(g.rng, 0.1) {
				k = 100 + g.rng.IntN(300)
			}
			g.c.stats.probe("read_burst")
			for i := 0; i < k && g.c.viol == nil; i++ {
				at := id
				if chance(g.rng, 0.15) {
					if o := g.targetNode(0.2); o != 0 {
						at = o
					}
				}
				g.nextCtx++
				g.lastCtx[at] = g.nextCtx
				g.do(Action{K: AReadIndex, N: at, I: g.nextCtx})
			}
		}
	case 4:
		id := g.targetNode(0.8)
		if id == 0 {
			return
		}
		to := g.c.ids[g.rng.IntN(len(g.c.ids))]
		g.do(Action{K: ATransfer, N: id, M: to})
	case 5:
		if id := g.randomUp(); id != 0 {
			g.do(Action{K: ACampaign, N: id})
		}
	case 6:
		if id := g.randomUp(); id != 0 {
			g.do(Action{K: AForgetLeader, N: id})
		}
	case 7:
		id := g.targetNode(0.8)
		if id == 0 {
			return
		}
		g.do(Action{K: AUnreachable, N: id, M: g.c.ids[g.rng.IntN(len(g.c.ids))]})
	case 8:
		id := g.targetNode(0.5)
		if id == 0 {
			return
		}
		back := g.rng.IntN(4)
		keep := g.rng.IntN(6)
		if g.p.AggressiveCompaction {
			back, keep = g.rng.IntN(2), g.rng.IntN(2)
		}
		g.do(Action{K: ACompact, N: id, I: back, J: keep, B: chance(g.rng, 0.5)})
	case 9:
		if id := g.randomUp(); id != 0 {
			g.do(Action{K: ACheckpoint, N: id})
		}
	case 10:
		if id := g.targetNode(0.8); id != 0 {
			if chance(g.rng, 0.5) {
				g.do(Action{K: ASnapRewrite, N: g.randomUp()})
			} else {
				g.do(Action{K: ASnapFault, N: id, I: 1 + g.rng.IntN(3)})
			}
		}
	}
}

func (g *Gen) tag() int { g.nextTag++; return g.nextTag }

// reuseBuffer decides whether the client overwrites its payload buffer once
// the Propose call has returned (takes effect at leaders only, see doPropose).
// cancelProposer decides whether a waiting proposer's context ends between
// the hand-over of the proposal and the posting of its outcome (E3 only).
func (g *Gen) cancelProposer() uint64 {
	if g.c.rc.NodeAPI && chance(g.rng, 0.15) {
		return 1
	}
	return 0
}

func (g *Gen) reuseBuffer() int {
	if chance(g.rng, 0.3) {
		return 1
	}
	return 0
}

// confChange proposes a membership change that is plausible against the latest
// committed configuration (the proposal may still be stale, refused or
// neutralised; that is part of the test).
func (g *Gen) confChange() {
	c := g.c
	id := g.targetNode(0.85)
	if id == 0 {
		return
	}
	cur := c.chk.confAt(c.chk.gMax())
	voters := sortedKeys(cur.I)
	learners := sortedKeys(cur.L)
	var outsiders []uint64
	for _, nid := range c.ids {
		if !cur.I[nid] && !cur.L[nid] && !cur.O[nid] && !cur.LN[nid] && !g.removed[nid] {
			outsiders = append(outsiders, nid)
		}
	}
	var spec CCSpec
	one := func(t pb.ConfChangeType, n uint64) CCSingle { return CCSingle{Type: int(t), Node: n} }
	pickOf := func(s []uint64) uint64 { return s[g.rng.IntN(len(s))] }
	var opts []func() bool
	if len(outsiders) > 0 {
		opts = append(opts, func() bool {
			t := pb.ConfChangeAddNode
			if chance(g.rng, 0.4) {
				t = pb.ConfChangeAddLearnerNode
			}
			spec.Changes = []CCSingle{one(t, pickOf(outsiders))}
			return true
		})
	}
	if len(learners) > 0 {
		opts = append(opts, func() bool { spec.Changes = []CCSingle{one(pb.ConfChangeAddNode, pickOf(learners))}; return true })
		opts = append(opts, func() bool { spec.Changes = []CCSingle{one(pb.ConfChangeRemoveNode, pickOf(learners))}; return true })
	}
	if len(voters) > 1 || (len(voters) == 1 && chance(g.rng, 0.1)) {
		opts = append(opts, func() bool {
			v := pickOf(voters)
			t := pb.ConfChangeRemoveNode
			if chance(g.rng, 0.4) {
				t = pb.ConfChangeAddLearnerNode
			}
			spec.Changes = []CCSingle{one(t, v)}
			return true
		})
	}
	// multi-change (joint)
	opts = append(opts, func() bool {
		var chs []CCSingle
		if len(outsiders) > 0 {
			chs = append(chs, one(pb.ConfChangeAddNode, pickOf(outsiders)))
		}
		if len(outsiders) > 1 && chance(g.rng, 0.3) {
			if o := pickOf(outsiders); o != chs[0].Node {
				chs = append(chs, one(pb.ConfChangeAddNode, o))
			}
		}
		if len(voters) > 1 {
			v := pickOf(voters)
			t := pb.ConfChangeRemoveNode
			if chance(g.rng, 0.5) {
				t = pb.ConfChangeAddLearnerNode
			}
			chs = append(chs, one(t, v))
			// a second voter leaving in the same joint change
			if len(voters) > 2 && chance(g.rng, 0.35) {
				if v2 := pickOf(voters); v2 != v {
					t2 := pb.ConfChangeRemoveNode
					if chance(g.rng, 0.4) {
						t2 = pb.ConfChangeAddLearnerNode
					}
					chs = append(chs, one(t2, v2))
				}
			}
		}
		if len(learners) > 0 && chance(g.rng, 0.5) {
			chs = append(chs, one(pb.ConfChangeAddNode, pickOf(learners)))
		}
		if len(chs) == 0 {
			return false
		}
		spec.Changes = chs
		spec.Transition = g.rng.IntN(3)
		return true
	})
	// leave joint / odd shapes
	opts = append(opts, func() bool {
		spec.Changes = nil
		spec.Transition = 0
		if chance(g.rng, 0.15) {
			spec.Transition = 1 + g.rng.IntN(2)
		}
		return cur.Joint() || chance(g.rng, 0.2)
	})
	opts = append(opts, func() bool {
		spec.Changes = []CCSingle{one(pb.ConfChangeUpdateNode, pickOf(c.ids))}
		return chance(g.rng, 0.3)
	})
	f := opts[g.rng.IntN(len(opts))]
	if chance(g.rng, g.p.RemoveBias) && len(voters) > 1 && !cur.Joint() {
		f = func() bool {
			var others []uint64
			for _, v := range voters {
				if v != id {
					others = append(others, v)
				}
			}
			if len(others) == 0 {
				return false
			}
			spec = CCSpec{Changes: []CCSingle{one(pb.ConfChangeRemoveNode, pickOf(others))}}
			return true
		}
	}
	if !f() {
		return
	}
	if len(spec.Changes) == 1 && spec.Transition == 0 {
		spec.V1 = chance(g.rng, 0.5)
		if !spec.V1 && chance(g.rng, 0.3) {
			spec.Transition = 1 + g.rng.IntN(2)
		}
	}
	for _, ch := range spec.Changes {
		if pb.ConfChangeType(ch.Type) == pb.ConfChangeRemoveNode {
			g.removed[ch.Node] = true
		}
	}
	g.confChanges++
	g.nextCtx++
	act := Action{K: AConfChange, N: id, CC: &spec, I: g.nextCtx}
	if chance(g.rng, 0.12) {
		// a second change travelling in the same proposal message
		var spec2 CCSpec
		switch {
		case len(voters) > 2 && chance(g.rng, 0.35):
			// a voter leaves in the second change of the message
			v := pickOf(voters)
			spec2.Changes = []CCSingle{one(pb.ConfChangeRemoveNode, v)}
			g.removed[v] = true
		case len(outsiders) > 0 && chance(g.rng, 0.6):
			spec2.Changes = []CCSingle{one(pb.ConfChangeAddLearnerNode, pickOf(outsiders))}
		case len(learners) > 0:
			spec2.Changes = []CCSingle{one(pb.ConfChangeAddNode, pickOf(learners))}
		default:
			spec2.Changes = []CCSingle{one(pb.ConfChangeUpdateNode, pickOf(c.ids))}
		}
		spec2.V1 = chance(g.rng, 0.5)
		g.nextCtx++
		act.CC2, act.J = &spec2, g.nextCtx
	} else if chance(g.rng, 0.12) && g.proposals < g.p.MaxProposals {
		// ordinary proposals travelling behind the change in the same message
		k := 1 + g.rng.IntN(2)
		for i := 0; i < k; i++ {
			act.Tags = append(act.Tags, g.tag())
		}
		g.proposals += k
		act.J = g.payloadSize()
	}
	g.do(act)
}

func (g *Gen) crash(n *Node, targeted bool) {
	cut := g.rng.IntN(3)
	keep := -1
	if u := n.disk.Unsynced() + 3; chance(g.rng, 0.6) {
		keep = g.rng.IntN(u)
	}
	torn := g.rng.IntN(4)
	g.do(Action{K: ACrash, N: n.id, I: cut, J: keep, M: uint64(torn)})
	down := int64((0.3 + 3*g.rng.Float64()) * float64(n.cfg.ElectionTick) * tickUnit)
	if chance(g.rng, 0.15) {
		down *= 6
	}
	g.schedule(&event{at: g.now + down, kind: evRestart, n: n.id})
}

func (g *Gen) fault() {
	p := g.p
	ws := []float64{p.WCrash, p.WPartition, p.WHealF, p.WClockStall, p.WClockJump, p.WSlowNode, p.WStallThread}
	kinds := []string{"crash", "partition", "partition", "clock", "clock", "slow", "slow"}
	for i := range ws {
		ws[i] *= g.mulFault[i]
		if !g.allow(kinds[i]) {
			ws[i] = 0
		}
	}
	c := g.c
	switch pick(g.rng, ws) {
	case 0:
		id := g.targetNode(0.5)
		if id == 0 {
			return
		}
		// keep at most a minority-ish number down at once most of the time
		down := 0
		for _, x := range c.ids {
			if !c.nodes[x].up && !c.nodes[x].stopped {
				down++
			}
		}
		if down >= (len(c.ids)+1)/2 && !chance(g.rng, 0.2) {
			return
		}
		g.crash(c.nodes[id], false)
	case 1:
		ids := append([]uint64(nil), c.ids...)
		g.rng.Shuffle(len(ids), func(i, j int) { ids[i], ids[j] = ids[j], ids[i] })
		var part [][]uint64
		forceOneWay := false
		shape := g.rng.IntN(4)
		if shape == 3 && len(ids) < 2 {
			shape = 1
		}
		switch shape {
		case 3: // one node is mute (receives, cannot send) or deaf (sends, receives nothing)
			x := ids[0]
			var rest []uint64
			for _, y := range c.ids {
				if y != x {
					rest = append(rest, y)
				}
			}
			if chance(g.rng, 0.6) {
				part = [][]uint64{{x}, rest}
			} else {
				part = [][]uint64{rest, {x}}
			}
			forceOneWay = true
		case 0: // isolate the leader (or a random node)
			l := g.leaderID()
			if l == 0 {
				l = ids[0]
			}
			var rest []uint64
			for _, x := range c.ids {
				if x != l {
					rest = append(rest, x)
				}
			}
			part = [][]uint64{{l}, rest}
		case 1:
			k := 1 + g.rng.IntN(len(ids))
			a, b := append([]uint64(nil), ids[:k]...), append([]uint64(nil), ids[k:]...)
			sort.Slice(a, func(i, j int) bool { return a[i] < a[j] })
			sort.Slice(b, func(i, j int) bool { return b[i] < b[j] })
			part = [][]uint64{a, b}
		default:
			for _, x := range ids {
				if len(part) < 3 && chance(g.rng, 0.5) || len(part) == 0 {
					part = append(part, []uint64{x})
				} else {
					j := g.rng.IntN(len(part))
					part[j] = append(part[j], x)
				}
			}
			for _, grp := range part {
				sort.Slice(grp, func(i, j int) bool { return grp[i] < grp[j] })
			}
		}
		oneWay := chance(g.rng, 0.2) || forceOneWay
		if g.do(Action{K: APartition, Part: part, B: oneWay}) && chance(g.rng, 0.5) {
			// messages already in flight across the cut are lost too
			for _, from := range c.ids {
				for _, to := range c.ids {
					if c.blocked[linkKey{from, to}] {
						for len(c.links[linkKey{from, to}]) > 0 {
							g.do(Action{K: ADrop, N: from, M: to, I: c.links[linkKey{from, to}][0].Seq})
						}
					}
				}
			}
		}
	case 2:
		g.do(Action{K: AHeal})
	case 3:
		if id := g.randomUp(); id != 0 {
			g.gn[id].stalledUntil = g.now + int64((1+3*g.rng.Float64())*float64(g.maxET)*tickUnit)
			c.stats.fault("clock_stall")
		}
	case 4:
		id := g.randomUp()
		if id == 0 {
			return
		}
		k := 1 + g.rng.IntN(3*c.nodes[id].cfg.ElectionTick)
		c.stats.fault("clock_jump")
		for i := 0; i < k && c.viol == nil; i++ {
			g.do(Action{K: ATick, N: id})
		}
		// a second node jumping at the same time produces competing candidates
		if chance(g.rng, 0.4) {
			if id2 := g.randomUp(); id2 != 0 && id2 != id {
				k2 := 1 + g.rng.IntN(3*c.nodes[id2].cfg.ElectionTick)
				for i := 0; i < k2 && c.viol == nil; i++ {
					g.do(Action{K: ATick, N: id2})
				}
			}
		}
	case 5:
		if id := g.randomUp(); id != 0 {
			g.gn[id].slowUntil = g.now + int64((2+6*g.rng.Float64())*float64(g.maxET)*tickUnit)
			c.stats.fault("slow_node")
		}
	case 6:
		if id := g.randomUp(); id != 0 && c.nodes[id].cfg.Async {
			g.gn[id].threadStall = g.now + int64((1+4*g.rng.Float64())*float64(g.maxET)*tickUnit)
			c.stats.fault("stalled_storage_thread")
		}
	}
}

// ProfileByName returns a registered profile.
func ProfileByName(name string) (Profile, bool) {
	if base, found := strings.CutSuffix(name, "+deep"); found {
		p, ok := Profiles()[base]
		if !ok {
			return p, false
		}
		// thorough tier: chaos phases three times as long, more client work
		p.Name = name
		p.MinActions, p.MaxActions = p.MinActions*2, p.MaxActions*3
		p.MaxProposals = p.MaxProposals * 5 / 2
		p.MaxConfChanges *= 2
		return p, true
	}
	p, ok := Profiles()[name]
	return p, ok
}

// virtualOp is the workload of E2: one step of the abstract group.
func (g *Gen) virtualOp() {
	c := g.c
	vg := c.vg
	ids := vg.ids
	lead := vg.leaderID()
	anyLeader := func() uint64 {
		// current or deposed leaders keep sending
		var ls []uint64
		for _, id := range ids {
			if vg.peers[id].leader {
				ls = append(ls, id)
			}
		}
		if len(ls) == 0 {
			return 0
		}
		return ls[g.rng.IntN(len(ls))]
	}
	if lead == 0 {
		g.do(Action{K: AVElect, N: ids[g.rng.IntN(len(ids))]})
		return
	}
	real := c.nodes[vg.real]
	vw := []float64{1.2, 6, 5, 4, 10, 2, 1.2, 1.5, 1.5, 0.7}
	for i := range vw {
		vw[i] *= g.mulVirtual[i]
	}
	switch pick(g.rng, vw) {
	case 0:
		g.do(Action{K: AVElect, N: ids[g.rng.IntN(len(ids))]})
	case 1:
		if g.proposals < g.p.MaxProposals {
			g.proposals++
			g.do(Action{K: AVPropose, N: anyLeader(), Tags: []int{g.tag()}, I: g.payloadSize()})
		}
	case 2:
		l := anyLeader()
		q := ids[g.rng.IntN(len(ids))]
		back := 0
		if chance(g.rng, 0.4) {
			back = g.rng.IntN(4)
		}
		g.do(Action{K: AVReplicate, N: l, M: q, I: back})
	case 3:
		g.do(Action{K: AVCommit, N: anyLeader()})
	case 4:
		back := 0
		switch g.rng.IntN(4) {
		case 0:
			back = g.rng.IntN(3)
		case 1:
			back = g.rng.IntN(12)
		case 2:
			back = 1 << 20
		}
		g.do(Action{K: AVSendApp, N: anyLeader(), I: back, J: g.rng.IntN(6)})
	case 5:
		g.do(Action{K: AVHeartbeat, N: anyLeader()})
	case 6:
		g.do(Action{K: AVCompact, N: ids[g.rng.IntN(len(ids))], I: g.rng.IntN(4)})
	case 7:
		g.do(Action{K: AVSendSnap, N: anyLeader()})
	case 9:
		if g.confChanges < g.p.MaxConfChanges+4 {
			g.confChanges++
			g.nextCtx++
			g.do(Action{K: AVProposeConf, N: anyLeader(), I: g.nextCtx, J: g.rng.IntN(7)})
		}
	case 8:
		// the real node's own application maintenance
		if real.up {
			switch g.rng.IntN(3) {
			case 0:
				g.do(Action{K: ACompact, N: real.id, I: g.rng.IntN(3), J: g.rng.IntN(4), B: chance(g.rng, 0.5)})
			case 1:
				g.do(Action{K: ACheckpoint, N: real.id})
			case 2:
				if chance(g.rng, 0.5) {
					g.do(Action{K: ASnapRewrite, N: real.id})
				} else {
					g.do(Action{K: ASnapFault, N: real.id, I: 1})
				}
			}
		}
	}
}
