package engine

// PropSpec says how a property's check samples: which profiles (with relative
// shares of the batch) and which probes make a run count as non-trivial.
type PropSpec struct {
	ID        string
	Profiles  []Profile
	Shares    []float64
	Mandatory []string // probes that must fire in a run for it to count as non-trivial
	QuickRuns int
	ThoroughX int // thorough = QuickRuns * ThoroughX
}

func withName(p Profile, name string) Profile { p.Name = name; return p }

// Profiles returns all registered profiles by name.
func Profiles() map[string]Profile {
	m := map[string]Profile{}
	for _, id := range PropertyIDs() {
		for _, p := range SpecFor(id).Profiles {
			m[p.Name] = p
		}
	}
	d := DefaultProfile()
	m[d.Name] = d
	f := followerProfile()
	f.Name = "follower"
	m[f.Name] = f
	nd := nodeProfile()
	nd.Name = "node"
	m[nd.Name] = nd
	return m
}

func PropertyIDs() []string {
	return []string{"C01", "C02", "C03", "C04", "C05", "C06", "C07", "C08", "C09", "C10", "C11", "C14", "C15", "C16", "C17", "C18", "C19", "C20"}
}

func electionProfile() Profile {
	p := DefaultProfile()
	p.ShortElection = true
	p.MinVoters = 2
	p.WCrash, p.WPartition, p.WClockJump = 5, 3, 2.5
	p.FaultRate = 0.09
	p.PDup, p.PLate = 0.06, 0.05
	p.WTransfer, p.WCampaign = 1.5, 1.0
	p.PTargetedCrash = 0.08
	p.WConf = 1.5
	return p
}

// asyncTermProfile aims at the window in which an async-storage node acts on
// a term/vote that its append thread has not made durable yet.
func asyncTermProfile() Profile {
	p := electionProfile()
	p.PAsync = 1
	p.WStallThread = 6
	p.PCrashUndurableTerm = 0.05
	p.MaxVoters = 3
	p.MaxJoiners, p.MaxLearners = 0, 0
	p.WConf = 0.3
	return p
}

// abaProfile aims at stale storage acknowledgements: every node writes
// asynchronously, append threads stall for several terms, leaders come and go.
func abaProfile() Profile {
	p := electionProfile()
	p.PAsync = 1
	p.MinVoters, p.MaxVoters = 3, 5
	p.MaxJoiners, p.MaxLearners = 0, 0
	p.WStallThread = 10
	p.WCrash = 6
	p.WPartition = 5
	p.FaultRate = 0.12
	p.WConf = 0.2
	p.WPropose, p.WBatch = 14, 4
	p.ClientRate = 1.0
	p.PCheckQuorum = 0.2
	return p
}

// shrinkProfile aims at elections on stale configurations: small groups that
// shrink, slow application of committed changes, removed nodes that keep running.
func shrinkProfile() Profile {
	p := confProfile()
	p.MinVoters, p.MaxVoters = 3, 4
	p.MaxJoiners = 1
	p.PAsync = 0.8
	p.WStallThread = 8
	p.WSlowNode = 3
	p.WCrash = 1
	p.ShortElection = true
	p.WConf = 6
	p.FaultRate = 0.1
	p.RemoveBias = 0.6
	p.MaxConfChanges = 4
	p.HoldConfApply = 0.5
	return p
}

// followerProfile is E2: one real node among abstract peers.
func followerProfile() Profile {
	p := DefaultProfile()
	p.Follower = true
	p.PAsync = 0.7
	p.PSmallLimits = 0.6
	p.ClientRate = 4
	p.MaxProposals = 150
	p.WCrash = 4
	p.WStallThread = 6
	p.WSlowNode = 3
	p.FaultRate = 0.1
	p.PDup, p.PLate, p.PDrop = 0.08, 0.06, 0.05
	p.HoldSnapshot = 0.4
	p.MinActions, p.MaxActions = 300, 2500
	p.PNodeAPI = 0.15 // the real node is driven through raft.Node in some runs (E3 driver inside E2)
	return p
}

// storeProfile is E4 storesim: the in-memory storage driven directly.
func storeProfile() Profile {
	p := DefaultProfile()
	p.StoreSim = true
	return p
}

// nodeProfile is E3 nodesim: every node is driven through the channel-based
// raft.Node (node.go), whose run loop goroutine the simulator schedules.
func nodeProfile() Profile {
	p := DefaultProfile()
	p.PNodeAPI = 1
	p.WPropose, p.WBatch = 12, 2
	p.WConf = 2
	p.MinVoters = 1
	p.PSmallLimits = 0.6
	p.WTransfer = 1
	return p
}

func crashProfile() Profile {
	p := DefaultProfile()
	p.WCrash = 8
	p.FaultRate = 0.1
	p.PTargetedCrash = 0.12
	p.PAsync = 0.65
	p.PCheckpointRestart = 0.5
	p.WCheckpoint = 1.5
	return p
}

func snapshotProfile() Profile {
	p := DefaultProfile()
	p.AggressiveCompaction = true
	p.WCompact = 6
	p.WPartition = 4
	p.MaxJoiners = 2
	p.WConf = 2
	p.MinVoters = 2
	p.PDup, p.PLate = 0.06, 0.04
	p.WSnapFault = 0.4
	p.SnapChaos = 0.35
	p.HoldSnapshot = 0.5
	p.WStallThread = 3
	p.WSlowNode = 2
	return p
}

func confProfile() Profile {
	p := DefaultProfile()
	p.WConf = 5
	p.MaxConfChanges = 10
	p.MaxJoiners = 2
	p.MinVoters = 2
	p.WCompact = 3
	p.WTransfer = 1
	p.HoldConfApply = 0.25
	return p
}

func readProfile() Profile {
	p := DefaultProfile()
	p.WRead = 10
	p.PLease = 0
	p.WPartition = 4
	p.WConf = 1.5
	p.PBootstrap = 0.1
	return p
}

func flowProfile() Profile {
	p := DefaultProfile()
	p.PSmallLimits = 1
	p.HeavyProposals = true
	p.WPropose, p.WBatch = 14, 5
	p.MaxProposals = 140
	p.ClientRate = 1.2
	p.WUnreach = 1
	p.WPartition = 3
	p.MinVoters = 2
	return p
}

func prevoteProfile() Profile {
	p := electionProfile()
	p.PPreVote, p.PCheckQuorum = 0.8, 0.8
	p.WPartition = 5
	return p
}

func proposalProfile() Profile {
	p := DefaultProfile()
	p.WPropose, p.WBatch = 12, 6
	p.PDup = 0.1
	p.PNoForward = 0.2
	p.WTransfer = 1.2
	p.MinVoters = 2
	p.MaxProposals = 120
	return p
}

func determinismProfile() Profile {
	p := DefaultProfile()
	p.PWideIDs = 0.4
	p.WRead = 6
	p.MinVoters = 4
	p.MaxJoiners = 2
	p.WConf = 3
	return p
}

// followerProps are the properties whose subject includes the follower side of
// log replication, storage acknowledgements, application and snapshots; their
// checks add a batch of E2 (followersim) runs, which are about 15 times
// cheaper than whole-group runs.
var followerProps = map[string]float64{"C10": 1.5, "C01": 1.5, "C03": 2, "C05": 1.5, "C06": 1, "C07": 1.5, "C08": 1.5, "C09": 1.5, "C14": 1.5, "C15": 2, "C18": 2, "C19": 0.5}

// storeProps are the properties whose subject includes the in-memory storage
// on its own (C18) or a panic inside it under contract-following use (C14);
// their checks add a batch of E4 (storesim) runs, which cost microseconds.
var storeProps = map[string]float64{"C18": 6, "C14": 2}

// nodeProps are the properties whose anchors include node.go (C05, C10, C20)
// or whose subject the channel-based Node can disturb by the way it sequences
// inputs, Ready and Advance (C08, C14, C15, C19); their checks add a batch of
// E3 (nodesim) runs, which cost about four times a whole-group run.
var nodeProps = map[string]float64{"C05": 0.12, "C08": 0.08, "C10": 0.15, "C14": 0.15, "C15": 0.1, "C19": 0.1, "C20": 0.2}

// SpecFor returns the sampling specification of a property.
func SpecFor(id string) PropSpec {
	s := specFor(id)
	if sh, ok := followerProps[id]; ok {
		s.Profiles = append(s.Profiles, withName(followerProfile(), id+"-follower"))
		s.Shares = append(s.Shares, sh)
	}
	if sh, ok := storeProps[id]; ok {
		s.Profiles = append(s.Profiles, withName(storeProfile(), id+"-store"))
		s.Shares = append(s.Shares, sh)
	}
	if sh, ok := nodeProps[id]; ok {
		s.Profiles = append(s.Profiles, withName(nodeProfile(), id+"-node"))
		s.Shares = append(s.Shares, sh)
	}
	return s
}

func specFor(id string) PropSpec {
	d := DefaultProfile()
	s := PropSpec{ID: id, QuickRuns: 5000, ThoroughX: 40}
	switch id {
	case "C15":
		s.QuickRuns = 3500 // heal phases dominate the cost
	case "C19":
		s.QuickRuns = 3000 // every run is executed twice
	case "C16":
		s.QuickRuns = 4000 // heavy proposal load
	}
	one := func(p Profile, name string, mandatory ...string) PropSpec {
		s.Profiles = []Profile{withName(p, name), withName(d, id+"-default")}
		s.Shares = []float64{0.7, 0.3}
		s.Mandatory = mandatory
		return s
	}
	switch id {
	case "C01":
		s.Profiles = []Profile{withName(crashProfile(), "C01-crash"), withName(shrinkProfile(), "C01-shrink"), withName(d, "C01-default")}
		s.Shares = []float64{0.5, 0.2, 0.3}
		return s
	case "C02":
		s.Profiles = []Profile{withName(electionProfile(), "C02-election"), withName(asyncTermProfile(), "C02-asyncterm"), withName(d, "C02-default")}
		s.Shares = []float64{0.5, 0.25, 0.25}
		s.Mandatory = []string{"simultaneous_candidates"}
		return s
	case "C03":
		s.Profiles = []Profile{withName(electionProfile(), "C03-election"), withName(abaProfile(), "C03-aba"), withName(d, "C03-default")}
		s.Shares = []float64{0.45, 0.3, 0.25}
		return s
	case "C04":
		s.Profiles = []Profile{withName(electionProfile(), "C04-election"), withName(shrinkProfile(), "C04-shrink"), withName(d, "C04-default")}
		s.Shares = []float64{0.5, 0.25, 0.25}
		return s
	case "C05":
		s.Profiles = []Profile{withName(crashProfile(), "C05-crash"), withName(asyncTermProfile(), "C05-asyncterm"), withName(d, "C05-default")}
		s.Shares = []float64{0.5, 0.25, 0.25}
		return s
	case "C06":
		s.Profiles = []Profile{withName(confProfile(), "C06-conf"), withName(snapshotProfile(), "C06-snapshot"), withName(d, "C06-default")}
		s.Shares = []float64{0.4, 0.35, 0.25}
		return s
	case "C07":
		return one(crashProfile(), "C07-crash")
	case "C08":
		p := snapshotProfile()
		p.PSmallLimits = 0.9
		return one(p, "C08-apply")
	case "C09":
		return one(snapshotProfile(), "C09-snapshot", "snapshot_sent")
	case "C10":
		return one(confProfile(), "C10-conf")
	case "C11":
		return one(readProfile(), "C11-read")
	case "C14":
		p := snapshotProfile()
		p.PZeroMsgSize = 0.03
		p.WConf = 3
		p.HoldConfApply = 0.3
		s.Profiles = []Profile{withName(p, "C14-mix"), withName(shrinkProfile(), "C14-shrink"), withName(d, "C14-default")}
		s.Shares = []float64{0.55, 0.2, 0.25}
		return s
	case "C15":
		p := DefaultProfile()
		p.PUniform = 1
		q := snapshotProfile()
		q.PUniform, q.PSmallLimits, q.PAsync = 1, 0.9, 0.8
		s.Profiles = []Profile{withName(p, "C15-uniform"), withName(q, "C15-snapshot"), withName(d, "C15-default")}
		s.Shares = []float64{0.5, 0.3, 0.2}
		return s
	case "C16":
		return one(flowProfile(), "C16-flow")
	case "C17":
		return one(prevoteProfile(), "C17-prevote")
	case "C18":
		s.Profiles = []Profile{withName(snapshotProfile(), "C18-log"), withName(abaProfile(), "C18-aba"), withName(d, "C18-default")}
		s.Shares = []float64{0.45, 0.3, 0.25}
		return s
	case "C19":
		return one(determinismProfile(), "C19-det")
	case "C20":
		return one(proposalProfile(), "C20-proposal")
	}
	return one(d, id+"-default2")
}
