package engine

import (
	"fmt"
	"hash/fnv"
	"os"
	"runtime/debug"
	"sort"
	"strings"

	raft "go.etcd.io/raft/v3"
	pb "go.etcd.io/raft/v3/raftpb"
	"google.golang.org/protobuf/proto"
)

// Flight is a message in flight on a link.
type Flight struct {
	ID       uint64
	From, To uint64
	Bytes    []byte
	Type     pb.MessageType
	Term     uint64
	SentStep int
	Dup      bool // a copy of this message was already delivered
	HasSnap  bool
	Seq      int         // per-link send sequence number: the address used by Deliver/Drop
	Msg      *pb.Message // by-reference transport only: the object the sender produced
}

type linkKey struct{ from, to uint64 }

// Node is one simulated process: a real RawNode over a simulated disk plus the
// application around it.
type Node struct {
	id      uint64
	cfg     NodeCfg
	c       *Cluster
	up      bool
	stopped bool
	started bool
	inc     int
	rn      *raft.RawNode // introspection (hooks); nil while the node is down
	api     raftAPI       // what the executor drives: the RawNode itself, or a raft.Node around it (E3)
	drv     *nodeDriver   // E3 only
	disk    *Disk
	app     *App
	rnd     *nodeRand
	logger  *simLogger

	// Ready/Advance pipeline.
	rd        *raft.Ready
	persisted bool
	applied   bool

	// storage threads
	appendQ     []*pb.Message
	appendResps [][]*pb.Message
	applyQ      []*pb.Message
	applyResps  [][]*pb.Message

	st    raft.VerifState // state after the last call
	ticks uint64          // ticks delivered in this incarnation

	restartApplied uint64
}

// Cluster is the executor: a pure function of (RunConfig, action list).
type Cluster struct {
	ss      *storeSim // E4 storesim (nil otherwise)
	opt     Options
	etLog   []int32 // randomized election timeout after every call that drew randomness
	etPos   int
	rc      RunConfig
	nodes   map[uint64]*Node
	ids     []uint64
	links   map[linkKey][]*Flight
	blocked map[linkKey]bool
	step    int
	seq     uint64
	nextMsg uint64
	linkSeq map[linkKey]int
	trace   []Action
	chk     *Checker
	stats   *Stats
	digest  uint64
	viol    *Violation
	foreign *Violation // first violation of a property other than the target
	// NewFlights is reset at the beginning of every action and lists what the
	// action put on the wire (the generator draws fates for these).
	NewFlights []*Flight
	// SnapSent lists (from,to) of MsgSnap handed to the network in this action.
	SnapSent []linkKey
	// readyDigests is the per-Ready log used by the determinism oracle.
	readyLog  []uint64
	initState *appState
	vg        *VGroup
	raftLog   []string
	healing   bool
}

// Stats counts what actually happened (took effect), per run.
type Stats struct {
	Actions      int
	Applicable   int
	ByKind       [numActKinds]int
	Faults       map[string]int
	Ticks        int
	Readies      int
	MsgsSent     int
	MsgsByType   map[string]int
	Delivered    int
	Crashes      int
	Restarts     int
	EntriesApp   int
	Probes       map[string]int
	StateHashes  map[uint64]struct{}
	Bigrams      map[uint16]struct{}
	lastKind     ActKind
	MaxTerm      uint64
	MaxCommit    uint64
	LeaderTerms  int
	OracleEvals  map[string]int
	Inconclusive int
}

func newStats() *Stats {
	return &Stats{Faults: map[string]int{}, MsgsByType: map[string]int{}, Probes: map[string]int{},
		StateHashes: map[uint64]struct{}{}, Bigrams: map[uint16]struct{}{}, OracleEvals: map[string]int{}}
}

func (s *Stats) fault(k string) { s.Faults[k]++ }
func (s *Stats) probe(k string) { s.Probes[k]++ }

// Options configure an execution.
type Options struct {
	Target string // property id whose violations stop the run ("" = any)
	// StopOnAny truncates the run at the first violation of any property.
	Quiet bool
	// RandSalt changes the byte stream behind crypto/rand.Reader; PinET is the
	// sequence of randomized election timeouts of an earlier execution of the
	// same call sequence, re-imposed draw by draw (C19: "with the same
	// election-timeout draws" - every other use of randomness must not show).
	RandSalt uint64
	PinET    []int32
	Debug    bool // keep the final state and the raft log in the result even without a violation
}

func NewCluster(rc RunConfig, opt Options) *Cluster {
	InstallRandSeam()
	c := &Cluster{
		opt:     opt,
		rc:      rc,
		nodes:   map[uint64]*Node{},
		links:   map[linkKey][]*Flight{},
		blocked: map[linkKey]bool{},
		linkSeq: map[linkKey]int{},
		stats:   newStats(),
		digest:  Mix(rc.Seed, 0xd19e57),
	}
	if c.rc.NKeys <= 0 {
		c.rc.NKeys = 3
	}
	c.chk = newChecker(c, opt)
	init := &appState{Index: rc.BaseIndex, KV: make([]int, c.rc.NKeys)}
	cs := &pb.ConfState{Voters: append([]uint64(nil), rc.Voters...), Learners: append([]uint64(nil), rc.Learners...)}
	if rc.Bootstrap {
		init.Index = 0
		cs = &pb.ConfState{}
	}
	init.Conf = cs
	c.initState = init
	member := map[uint64]bool{}
	for _, v := range rc.Voters {
		member[v] = true
	}
	for _, v := range rc.Learners {
		member[v] = true
	}
	for _, nc := range rc.Nodes {
		n := &Node{id: nc.ID, cfg: nc, c: c, disk: newDisk()}
		n.disk.view.faultsFired = new(int)
		c.nodes[nc.ID] = n
		c.ids = append(c.ids, nc.ID)
		if !rc.Bootstrap && member[nc.ID] && rc.BaseIndex > 0 {
			snap := &pb.Snapshot{
				Data: init.encode(),
				Metadata: &pb.SnapshotMetadata{
					Index: new(rc.BaseIndex), Term: new(uint64(1)),
					ConfState: proto.Clone(cs).(*pb.ConfState),
				},
			}
			must(n.disk.ApplySnapshot(snap))
			must(n.disk.SetHardState(&pb.HardState{Term: new(uint64(1)), Vote: new(uint64(0)), Commit: new(rc.BaseIndex)}))
			n.disk.Sync()
			n.app = newApp(init)
		} else {
			empty := &appState{KV: make([]int, c.rc.NKeys), Conf: &pb.ConfState{}}
			n.app = newApp(empty)
		}
	}
	sort.Slice(c.ids, func(i, j int) bool { return c.ids[i] < c.ids[j] })
	c.chk.init()
	if len(rc.Virtual) > 0 && len(rc.Nodes) > 0 {
		c.vg = newVGroup(c, rc.Nodes[0].ID, append([]uint64(nil), rc.Virtual...), proto.Clone(cs).(*pb.ConfState), init)
	}
	if rc.StoreSim {
		// E4: no raft node runs
		c.ss = &storeSim{}
		return c
	}
	// Start everyone.
	for _, id := range c.ids {
		n := c.nodes[id]
		var peers []raft.Peer
		if rc.Bootstrap && member[id] {
			for _, v := range rc.Voters {
				peers = append(peers, raft.Peer{ID: v})
			}
		}
		if rc.NodeAPI {
			// StartNode bootstraps by itself
			c.startNode(n, 0, false, peers...)
		} else {
			c.startNode(n, 0, false)
		}
		if c.viol != nil {
			break
		}
		if rc.Bootstrap && member[id] && n.up {
			if !rc.NodeAPI {
				n.call("Bootstrap", nil, func() error { return n.rn.Bootstrap(peers) })
			}
			// Bootstrapping is completed (its first write group made durable)
			// before the node starts serving; a crash in the middle of it is the
			// application's problem to repair (it would bootstrap again).
			c.finishBootstrap(n)
		}
	}
	return c
}

func (c *Cluster) raftConfig(n *Node, applied uint64) *raft.Config {
	nc := n.cfg
	cfg := &raft.Config{
		ID:                          nc.ID,
		ElectionTick:                nc.ElectionTick,
		HeartbeatTick:               nc.HeartbeatTick,
		Storage:                     n.disk.view,
		Applied:                     applied,
		AsyncStorageWrites:          nc.Async,
		MaxSizePerMsg:               nc.MaxSizePerMsg,
		MaxCommittedSizePerReady:    nc.MaxCommittedSizePerReady,
		MaxUncommittedEntriesSize:   nc.MaxUncommittedEntriesSize,
		MaxInflightMsgs:             nc.MaxInflightMsgs,
		MaxInflightBytes:            nc.MaxInflightBytes,
		CheckQuorum:                 nc.CheckQuorum,
		PreVote:                     nc.PreVote,
		Logger:                      n.logger,
		DisableProposalForwarding:   nc.DisableProposalForwarding,
		DisableConfChangeValidation: nc.DisableConfChangeValidation,
		StepDownOnRemoval:           nc.StepDownOnRemoval,
	}
	if nc.LeaseBased {
		cfg.ReadOnlyOption = raft.ReadOnlyLeaseBased
	}
	return cfg
}

func (c *Cluster) finishBootstrap(n *Node) {
	if !n.up || c.viol != nil {
		return
	}
	if n.cfg.Async {
		c.doReady(n)
		for n.up && c.viol == nil && len(n.appendQ) > 0 {
			c.doAppendStep(n)
		}
		n.disk.Sync()
		for n.up && c.viol == nil && len(n.appendResps) > 0 {
			c.doAppendResp(n)
		}
		return
	}
	c.doReady(n)
	if n.rd != nil {
		c.doPersist(n)
		n.disk.Sync()
		c.doApply(n)
		if n.up && n.rd != nil {
			rd := *n.rd
			n.rd = nil
			n.call("Advance", nil, func() error { n.api.Advance(rd); return nil })
		}
	}
}

// startNode (re)creates the RawNode on the node's current page storage.
func (c *Cluster) startNode(n *Node, applied uint64, restart bool, peers ...raft.Peer) {
	n.inc++
	n.rnd = newNodeRand(c.rc.Seed^c.opt.RandSalt, n.id, n.inc)
	n.logger = &simLogger{c: c, id: n.id}
	n.rd, n.persisted, n.applied = nil, false, false
	n.appendQ, n.appendResps, n.applyQ, n.applyResps = nil, nil, nil, nil
	n.ticks = 0
	n.restartApplied = applied
	cfg := c.raftConfig(n, applied)
	var rn *raft.RawNode
	var api raftAPI
	ok := c.guard(n, "NewRawNode", func() error {
		var err error
		if c.rc.NodeAPI {
			// E3: StartNode (bootstrap style, first start of a member) or RestartNode
			var d *nodeDriver
			d, err = startNodeDriver(cfg, peers)
			if d != nil {
				n.drv, rn, api = d, d.rn, d
			}
			return err
		}
		rn, err = raft.NewRawNode(cfg)
		api = rn
		return err
	})
	if !ok || rn == nil {
		n.down()
		return
	}
	n.rn, n.api = rn, api
	n.up = true
	n.started = true
	c.pinElectionTimeout(n, 0)
	n.st = rn.VerifState()
	c.chk.onStart(n, restart)
}

// down marks the node as not running. In E3 the run loop goroutine is ended.
func (n *Node) down() {
	n.up, n.rn, n.api = false, nil, nil
	if n.drv != nil {
		n.drv.stop()
		n.drv = nil
	}
}

// guard runs f with the node's randomness current and converts panics into
// C14 violations. It returns false if f panicked.
func (c *Cluster) guard(n *Node, what string, f func() error) (ok bool) {
	seam.cur = n.rnd
	defer func() {
		seam.cur = nil
		if r := recover(); r != nil {
			ok = false
			if _, abandoned := r.(runAbandoned); abandoned {
				if c.viol == nil {
					c.viol = &Violation{Property: "ABANDONED", Oracle: "wall_clock", Sig: "wall_clock", Step: c.step, Msg: "run abandoned: a call into the node did not come back to a scheduling point within the per-run wall-clock limit"}
				}
				return
			}
			stack := debug.Stack()
			if np, isNP := r.(nodePanic); isNP {
				// the run loop goroutine of a raft.Node panicked (E3)
				r, stack = np.val, np.stack
			}
			site := panicSite(stack)
			msg := fmt.Sprintf("%v", r)
			c.chk.onPanic(n, what, msg, site)
		}
	}()
	_ = f()
	return true
}

// panicSite extracts the innermost raft frame of a panic stack.
func panicSite(stack []byte) string {
	lines := strings.Split(string(stack), "\n")
	for i := 0; i+1 < len(lines); i++ {
		l := lines[i]
		if strings.HasPrefix(l, "go.etcd.io/raft/v3") && !strings.Contains(l, "Logger") && !strings.Contains(l, "logger") {
			fn := l
			if j := strings.Index(fn, "("); j > 0 && !strings.HasPrefix(fn[j:], "(*") {
				fn = fn[:j]
			}
			fn = strings.TrimPrefix(fn, "go.etcd.io/raft/v3")
			fn = strings.TrimPrefix(fn, ".")
			fn = strings.TrimPrefix(fn, "/")
			if k := strings.LastIndex(fn, "("); k > 0 && !strings.Contains(fn[k:], "*") {
				fn = fn[:k]
			}
			return fn
		}
	}
	return "unknown"
}

// callCtx describes the RawNode call a state transition belongs to.
type callCtx struct {
	what string
	msg  *pb.Message // delivered message, if any
	err  error
}

// call performs one call into the node's RawNode and runs the step monitors.
func (n *Node) call(what string, m *pb.Message, f func() error) (err error) {
	c := n.c
	if !n.up || n.rn == nil {
		return nil
	}
	c.chk.preCall(n, what, m)
	draws := n.rnd.Draws
	ok := c.guard(n, what, func() error { err = f(); return err })
	if !ok {
		// The node is dead after a panic.
		n.down()
		return nil
	}
	c.pinElectionTimeout(n, draws)
	c.chk.postCall(n, &callCtx{what: what, msg: m, err: err})
	return err
}

// pinElectionTimeout runs after every call into a node that drew randomness.
// First execution: the randomized election timeout the node ended up with is
// recorded. Re-execution for C19 (Options.PinET): the random bytes differ
// (Options.RandSalt) and the recorded timeout is imposed instead, so the two
// executions have the same election-timeout draws and nothing else in common
// that is random.
func (c *Cluster) pinElectionTimeout(n *Node, drawsBefore uint64) {
	if n.rn == nil || n.rnd.Draws == drawsBefore {
		return
	}
	if c.opt.PinET != nil {
		if c.etPos < len(c.opt.PinET) {
			n.rn.VerifSetRandomizedElectionTimeout(int(c.opt.PinET[c.etPos]))
		}
		c.etPos++
		return
	}
	c.etLog = append(c.etLog, int32(n.rn.VerifState().RandomizedElectionTimeout))
}

func (c *Cluster) mixDigest(vals ...uint64) {
	for _, v := range vals {
		c.digest = Mix(c.digest, v)
	}
}

func hashBytes(b []byte) uint64 {
	h := fnv.New64a()
	h.Write(b)
	return h.Sum64()
}

var detMarshal = proto.MarshalOptions{Deterministic: true}

func hashProto(m proto.Message) uint64 {
	b, err := detMarshal.Marshal(m)
	if err != nil {
		return 0xdead
	}
	return hashBytes(b)
}

// Violated reports the first violation relevant to the run (nil if none).
func (c *Cluster) Violated() *Violation { return c.viol }

// Digest is the running digest of everything observable so far.
func (c *Cluster) Digest() string { return fmt.Sprintf("%016x", c.digest) }

func (c *Cluster) Stats() *Stats        { return c.stats }
func (c *Cluster) Trace() []Action      { return c.trace }
func (c *Cluster) Step() int            { return c.step }
func (c *Cluster) Checker() *Checker    { return c.chk }
func (c *Cluster) IDs() []uint64        { return c.ids }
func (c *Cluster) Node(id uint64) *Node { return c.nodes[id] }

// Do executes one action. It returns whether the action was applicable.
func (c *Cluster) Do(a Action) bool {
	if c.viol != nil {
		return false
	}
	if abortRun.Load() {
		// the per-run wall-clock limit was exceeded (watchdog): the run is
		// abandoned; it is counted under foreign "ABANDONED/wall_clock" and
		// nothing is concluded from it
		c.viol = &Violation{Property: "ABANDONED", Oracle: "wall_clock", Sig: "wall_clock", Step: c.step, Msg: "run abandoned: per-run wall-clock limit exceeded"}
		return false
	}
	c.NewFlights = c.NewFlights[:0]
	c.SnapSent = c.SnapSent[:0]
	c.step++
	c.trace = append(c.trace, a)
	c.stats.Actions++
	ok := c.safeExec(a)
	if ok {
		c.stats.Applicable++
		c.stats.ByKind[a.K]++
		c.stats.Bigrams[uint16(c.stats.lastKind)<<8|uint16(a.K)] = struct{}{}
		c.stats.lastKind = a.K
	}
	var okv uint64
	if ok {
		okv = 1
	}
	c.mixDigest(uint64(a.K), a.N, a.M, uint64(int64(a.I)), uint64(int64(a.J)), okv)
	c.chk.afterAction(a, ok)
	return ok
}

// safeExec turns a panic inside the simulator itself into a tool error (exit
// status 2), never into a violation.
func (c *Cluster) safeExec(a Action) (ok bool) {
	defer func() {
		if r := recover(); r != nil {
			c.chk.toolError(fmt.Sprintf("simulator panic in %s: %v\n%s", a, r, debug.Stack()))
			ok = true
		}
	}()
	return c.exec(a)
}

func (c *Cluster) exec(a Action) bool {
	switch a.K {
	case APartition:
		return c.doPartition(a)
	case AHeal:
		if len(c.blocked) == 0 {
			return false
		}
		c.blocked = map[linkKey]bool{}
		c.stats.fault("heal")
		return true
	case ADeliver:
		return c.doDeliver(a)
	case ADrop:
		return c.doDrop(a)
	case AHealPhase, AVClosePhase:
		c.healing = true
		return true
	case ASAppend, ASSnap, ASCreateSnap, ASCompact, ASQuery:
		if c.ss == nil {
			return false
		}
		return c.execStore(a)
	case AVElect, AVPropose, AVReplicate, AVCommit, AVCompact, AVSendApp, AVHeartbeat, AVSendSnap, AVProposeConf:
		if c.vg == nil {
			return false
		}
		return c.vg.exec(a)
	}
	n := c.nodes[a.N]
	if n == nil {
		return false
	}
	switch a.K {
	case ARestart:
		return c.doRestart(n, a)
	case AStop:
		if n.stopped {
			return false
		}
		if n.up {
			c.chk.onCrash(n)
		}
		n.down()
		n.stopped = true
		n.rd = nil
		return true
	}
	if !n.up {
		return false
	}
	switch a.K {
	case ATick:
		n.ticks++
		c.stats.Ticks++
		n.call("Tick", nil, func() error { n.api.Tick(); return nil })
		return true
	case AReady:
		return c.doReady(n)
	case APersist:
		return c.doPersist(n)
	case AApply:
		return c.doApply(n)
	case AAdvance:
		if n.cfg.Async || n.rd == nil || !n.persisted || !n.applied {
			return false
		}
		rd := *n.rd
		n.rd = nil
		n.call("Advance", nil, func() error { n.api.Advance(rd); return nil })
		return true
	case AAppendStep:
		return c.doAppendStep(n)
	case AAppendResp:
		return c.doAppendResp(n)
	case AApplyStep:
		return c.doApplyStep(n)
	case AApplyResp:
		return c.doApplyResp(n)
	case APropose:
		return c.doPropose(n, a)
	case AConfChange:
		return c.doConfChange(n, a)
	case AReadIndex:
		ctx := []byte(fmt.Sprintf("r%d", a.I))
		c.chk.onReadIssue(n, a.I)
		n.call("ReadIndex", nil, func() error { n.api.ReadIndex(ctx); return nil })
		return true
	case ATransfer:
		n.call("TransferLeader", nil, func() error { n.api.TransferLeader(a.M); return nil })
		return true
	case ACampaign:
		n.call("Campaign", nil, func() error { return n.api.Campaign() })
		return true
	case AForgetLeader:
		n.call("ForgetLeader", nil, func() error { return n.api.ForgetLeader() })
		return true
	case AUnreachable:
		n.call("ReportUnreachable", nil, func() error { n.api.ReportUnreachable(a.M); return nil })
		c.stats.fault("unreachable_report")
		return true
	case ASnapReport:
		st := raft.SnapshotFinish
		if !a.B {
			st = raft.SnapshotFailure
		}
		n.call("ReportSnapshot", nil, func() error { n.api.ReportSnapshot(a.M, st); return nil })
		return true
	case ACompact:
		return c.doCompact(n, a)
	case ACrash:
		return c.doCrash(n, a)
	case ASnapFault:
		if a.I <= 0 {
			if n.disk.view.snapFaults == 0 {
				return false
			}
			n.disk.view.snapFaults = 0
			return true
		}
		n.disk.view.snapFaults = a.I
		return true
	case ASnapRewrite:
		// an idempotent retry of the last snapshot write: the storage keeps what
		// it has (ErrSnapOutOfDate); the abstract image ignores it as well
		ps, _ := n.disk.page.Snapshot()
		if ps.GetMetadata().GetIndex() == 0 {
			return false
		}
		err := n.disk.page.ApplySnapshot(ps)
		c.stats.probe("snapshot_write_repeated")
		if err == nil {
			c.stats.probe("snapshot_write_repeated_accepted")
		}
		c.chk.onWrite(n)
		c.chk.refreshAfterStorageChange(n)
		return true
	case ACheckpoint:
		idx := n.app.cur.Index
		if k := len(n.app.checkpoints); k > 0 && n.app.checkpoints[k-1] >= idx {
			return false
		}
		n.app.checkpoints = append(n.app.checkpoints, idx)
		if len(n.app.checkpoints) > 8 {
			n.app.checkpoints = n.app.checkpoints[len(n.app.checkpoints)-8:]
		}
		return true
	}
	return false
}

// ---------------------------------------------------------------------------
// network

func (c *Cluster) doPartition(a Action) bool {
	group := map[uint64]int{}
	for gi, g := range a.Part {
		for _, id := range g {
			group[id] = gi + 1
		}
	}
	nb := map[linkKey]bool{}
	for _, x := range c.ids {
		for _, y := range c.ids {
			if x == y {
				continue
			}
			gx, gy := group[x], group[y]
			if gx == gy {
				continue
			}
			if a.B {
				// one-way: members of the first group cannot send to anyone else.
				if gx == 1 {
					nb[linkKey{x, y}] = true
				}
				continue
			}
			nb[linkKey{x, y}] = true
		}
	}
	if len(nb) == 0 {
		return false
	}
	c.blocked = nb
	if a.B {
		c.stats.fault("oneway_link")
	} else {
		c.stats.fault("partition")
	}
	return true
}

// netSend hands a message to the network. The message is marshalled now.
func (c *Cluster) netSend(n *Node, m *pb.Message) {
	c.chk.onNetSend(n, m)
	if c.viol != nil {
		return
	}
	to := m.GetTo()
	c.stats.MsgsSent++
	c.stats.MsgsByType[m.GetType().String()]++
	if _, ok := c.nodes[to]; !ok {
		if c.vg == nil || c.vg.peers[to] == nil {
			return
		}
	}
	k := linkKey{n.id, to}
	if c.blocked[k] {
		c.stats.fault("msg_partition_drop")
		return
	}
	b, err := proto.Marshal(m)
	if err != nil {
		c.chk.toolError(fmt.Sprintf("marshal: %v", err))
		return
	}
	c.nextMsg++
	c.linkSeq[k]++
	f := &Flight{Seq: c.linkSeq[k], ID: c.nextMsg, From: n.id, To: to, Bytes: b, Type: m.GetType(), Term: m.GetTerm(), SentStep: c.step, HasSnap: m.GetSnapshot() != nil}
	if c.rc.ByRef {
		f.Msg = m
	}
	c.links[k] = append(c.links[k], f)
	c.NewFlights = append(c.NewFlights, f)
	if m.GetType() == pb.MsgSnap {
		c.SnapSent = append(c.SnapSent, k)
	}
}

// Link returns the in-flight messages from→to, oldest first.
func (c *Cluster) Link(from, to uint64) []*Flight { return c.links[linkKey{from, to}] }

// FlightPos finds a flight's position in its link queue (-1: gone).
func (c *Cluster) FlightPos(f *Flight) int {
	for i, g := range c.links[linkKey{f.From, f.To}] {
		if g == f {
			return i
		}
	}
	return -1
}

func (c *Cluster) posBySeq(k linkKey, seq int) int {
	for i, g := range c.links[k] {
		if g.Seq == seq {
			return i
		}
	}
	return -1
}

// InFlight is the total number of messages in flight.
func (c *Cluster) InFlight() int {
	t := 0
	for _, l := range c.links {
		t += len(l)
	}
	return t
}

func (c *Cluster) doDrop(a Action) bool {
	k := linkKey{a.N, a.M}
	l := c.links[k]
	pos := c.posBySeq(k, a.I)
	if pos < 0 {
		return false
	}
	c.links[k] = append(l[:pos:pos], l[pos+1:]...)
	c.stats.fault("msg_drop")
	return true
}

func (c *Cluster) doDeliver(a Action) bool {
	k := linkKey{a.N, a.M}
	l := c.links[k]
	pos := c.posBySeq(k, a.I)
	if pos < 0 {
		return false
	}
	f := l[pos]
	if a.B {
		if !f.Dup {
			f.Dup = true
		}
		c.stats.fault("msg_dup")
	} else {
		c.links[k] = append(l[:pos:pos], l[pos+1:]...)
	}
	if pos > 0 {
		c.stats.fault("msg_reorder")
	}
	n := c.nodes[a.M]
	if n == nil && c.vg != nil && c.vg.peers[a.M] != nil {
		vm := &pb.Message{}
		if err := proto.Unmarshal(f.Bytes, vm); err == nil {
			c.vg.receive(a.M, vm)
		}
		return true
	}
	if n == nil || !n.up {
		c.stats.fault("msg_to_down_node")
		return true
	}
	m := &pb.Message{}
	if f.Msg != nil {
		// the receiver takes the object over (raft may edit a message it was
		// given, e.g. when it neutralises a configuration change in a MsgProp):
		// a second delivery of the same message is a retransmission, decoded anew
		m = f.Msg
		f.Msg = nil
		c.stats.fault("msg_by_reference")
	} else if err := proto.Unmarshal(f.Bytes, m); err != nil {
		c.chk.toolError(fmt.Sprintf("unmarshal: %v", err))
		return true
	}
	c.stats.Delivered++
	if c.step-f.SentStep > 400 {
		c.stats.fault("msg_late")
	}
	n.call("Step", m, func() error { return n.api.Step(m) })
	return true
}

// ---------------------------------------------------------------------------
// Ready / Advance interface

func (c *Cluster) doReady(n *Node) bool {
	if !n.cfg.Async && n.rd != nil {
		return false
	}
	var has bool
	if !c.guard(n, "HasReady", func() error { has = n.api.HasReady(); return nil }) {
		n.down()
		return true
	}
	if !has {
		return false
	}
	var rd raft.Ready
	n.call("Ready", nil, func() error { rd = n.api.Ready(); return nil })
	if !n.up {
		return true
	}
	c.stats.Readies++
	c.observeReady(n, &rd)
	if c.viol != nil {
		return true
	}
	if n.cfg.Async {
		for _, m := range rd.Messages {
			switch m.GetTo() {
			case raft.LocalAppendThread:
				n.appendQ = append(n.appendQ, m)
			case raft.LocalApplyThread:
				n.applyQ = append(n.applyQ, m)
			default:
				c.netSend(n, m)
			}
		}
		return true
	}
	n.rd = &rd
	n.persisted, n.applied = false, false
	if len(rd.CommittedEntries) == 0 {
		n.applied = true
	}
	return true
}

// observeReady folds the Ready into the digest and runs the emission monitors.
func (c *Cluster) observeReady(n *Node, rd *raft.Ready) {
	d := Mix(uint64(n.id), uint64(len(rd.Messages)))
	for _, m := range rd.Messages {
		d = Mix(d, hashProto(m))
	}
	for _, e := range rd.Entries {
		d = Mix(d, hashProto(e))
	}
	for _, e := range rd.CommittedEntries {
		d = Mix(d, hashProto(e))
	}
	if rd.HardState != nil {
		d = Mix(d, hashProto(rd.HardState))
	}
	if rd.SoftState != nil {
		d = Mix(d, Mix(rd.SoftState.Lead, uint64(rd.SoftState.RaftState)))
	}
	if rd.Snapshot != nil {
		d = Mix(d, hashProto(rd.Snapshot))
	}
	for _, rs := range rd.ReadStates {
		d = Mix(d, Mix(rs.Index, hashBytes(rs.RequestCtx)))
	}
	if rd.MustSync {
		d = Mix(d, 1)
	}
	c.readyLog = append(c.readyLog, Mix(uint64(c.step), d))
	c.mixDigest(d)
	c.chk.onReady(n, rd)
}

// ReadyLog is the sequence of per-Ready digests (determinism oracle).
func (c *Cluster) ReadyLog() []uint64 { return c.readyLog }

// writeGroup performs one write group in the documented order: snapshot,
// entries, hard state. upto limits how far it gets (crash cuts): 0 nothing,
// 1 snapshot+entries, 2 everything.
func (c *Cluster) writeGroup(n *Node, snap *pb.Snapshot, ents []*pb.Entry, hs *pb.HardState, upto int) {
	if upto <= 0 {
		return
	}
	if snap != nil && !raft.IsEmptySnap(snap) {
		if err := n.disk.ApplySnapshot(snap); err == nil {
			n.appRestore(snap)
		} else if err != raft.ErrSnapOutOfDate {
			c.chk.toolError(fmt.Sprintf("ApplySnapshot: %v", err))
		} else {
			c.stats.probe("snapshot_out_of_date_on_write")
		}
	}
	if len(ents) > 0 {
		// probes: the write truncates a stored tail / rewrites, unchanged, a
		// prefix of a longer stored tail (append is overwrite-from-index)
		w := n.disk.written
		if last := ents[len(ents)-1]; last.GetIndex() < w.last() {
			c.stats.probe("append_truncates_stored_tail")
			if t, ok := w.term(last.GetIndex()); ok && t == last.GetTerm() {
				c.stats.probe("append_rewrites_prefix_of_longer_stored_tail")
			}
		}
		if !c.guardDisk(n, func() error { return n.disk.Append(ents) }) {
			return
		}
	}
	if upto >= 2 && hs != nil && !raft.IsEmptyHardState(hs) {
		must(n.disk.SetHardState(hs))
	}
}

// guardDisk runs a MemoryStorage mutation; a panic there (e.g. "missing log
// entry") means raft handed the application an inconsistent write group.
func (c *Cluster) guardDisk(n *Node, f func() error) (ok bool) {
	defer func() {
		if r := recover(); r != nil {
			ok = false
			c.chk.onPanic(n, "Storage.Append", fmt.Sprintf("%v", r), "MemoryStorage")
			n.down()
		}
	}()
	if err := f(); err != nil {
		c.chk.toolError(fmt.Sprintf("disk: %v", err))
	}
	return true
}

func (n *Node) appRestore(snap *pb.Snapshot) {
	st, err := decodeAppState(snap.GetData(), snap.GetMetadata().GetConfState())
	if err != nil {
		n.c.chk.report("C09", "sn.data", n, fmt.Sprintf("snapshot at %d carries undecodable data: %v", snap.GetMetadata().GetIndex(), err), "")
		return
	}
	if st.Index != snap.GetMetadata().GetIndex() {
		n.c.chk.report("C09", "sn.data", n, fmt.Sprintf("snapshot metadata index %d but data describes index %d", snap.GetMetadata().GetIndex(), st.Index), "")
		return
	}
	if st.Index <= n.app.cur.Index {
		// The state machine is already past this snapshot (it can be while the
		// apply thread ran ahead); keep the newer state.
		n.c.stats.probe("snapshot_behind_app")
		return
	}
	n.app.cur = st
	n.app.remember()
	n.c.chk.onAppRestore(n, snap)
}

func (c *Cluster) doPersist(n *Node) bool {
	if n.cfg.Async || n.rd == nil || n.persisted {
		return false
	}
	rd := n.rd
	c.writeGroup(n, rd.Snapshot, rd.Entries, rd.HardState, 2)
	if !n.up {
		return true
	}
	if rd.MustSync || (rd.Snapshot != nil && !raft.IsEmptySnap(rd.Snapshot)) {
		n.disk.Sync()
	}
	n.persisted = true
	c.chk.onWrite(n)
	for _, m := range rd.Messages {
		c.netSend(n, m)
		if c.viol != nil {
			break
		}
	}
	return true
}

func (c *Cluster) doApply(n *Node) bool {
	if n.cfg.Async || n.rd == nil || n.applied {
		return false
	}
	if n.rd.Snapshot != nil && !raft.IsEmptySnap(n.rd.Snapshot) && !n.persisted {
		return false
	}
	c.applyEntries(n, n.rd.CommittedEntries)
	n.applied = true
	return true
}

// applyEntries is the application applying a batch of committed entries.
func (c *Cluster) applyEntries(n *Node, ents []*pb.Entry) {
	for _, e := range ents {
		if !n.up || c.viol != nil {
			return
		}
		if e.GetIndex() <= n.app.cur.Index {
			c.stats.probe("apply_skipped_covered")
			continue
		}
		if e.GetIndex() != n.app.cur.Index+1 {
			c.chk.report("C08", "ap.app_gap", n, fmt.Sprintf("state machine at %d was handed entry %d", n.app.cur.Index, e.GetIndex()), "")
			return
		}
		c.stats.EntriesApp++
		switch e.GetType() {
		case pb.EntryNormal:
			n.app.applyNormal(e)
		case pb.EntryConfChange, pb.EntryConfChangeV2:
			ccv2, cci, err := decodeCC(e)
			if err != nil {
				c.chk.report("C20", "pi.cc_decode", n, fmt.Sprintf("conf-change entry %d does not decode: %v", e.GetIndex(), err), "")
				return
			}
			cur := refConfFromConfState(n.app.cur.Conf)
			dec, _ := appDecide(cur, ccv2)
			var cs *pb.ConfState
			switch dec {
			case ccApply:
				n.call("ApplyConfChange", nil, func() error { cs = n.api.ApplyConfChange(cci); return nil })
			case ccCancel:
				c.stats.probe("confchange_cancelled_at_apply")
				z := zeroIDs(ccv2)
				n.call("ApplyConfChange", nil, func() error { cs = n.api.ApplyConfChange(z); return nil })
			case ccSkip:
				c.stats.probe("confchange_skipped_at_apply")
			}
			if !n.up {
				return
			}
			n.app.applyConf(e, cs)
			c.chk.onApplyConf(n, e, dec, cs)
		}
		n.app.remember()
		c.chk.onApplied(n, e)
	}
}

// ---------------------------------------------------------------------------
// storage threads (AsyncStorageWrites)

func hsFromMsg(m *pb.Message) *pb.HardState {
	if m.Term == nil && m.Vote == nil && m.Commit == nil {
		return nil
	}
	return &pb.HardState{Term: new(m.GetTerm()), Vote: new(m.GetVote()), Commit: new(m.GetCommit())}
}

func (c *Cluster) doAppendStep(n *Node) bool {
	if !n.cfg.Async || len(n.appendQ) == 0 {
		return false
	}
	m := n.appendQ[0]
	n.appendQ = n.appendQ[1:]
	c.writeGroup(n, m.GetSnapshot(), m.GetEntries(), hsFromMsg(m), 2)
	if !n.up {
		return true
	}
	if len(m.GetResponses()) > 0 || m.GetSnapshot() != nil {
		n.disk.Sync()
	}
	c.chk.onWrite(n)
	if len(m.GetResponses()) > 0 {
		n.appendResps = append(n.appendResps, m.GetResponses())
	}
	return true
}

func (c *Cluster) deliverResponses(n *Node, resps []*pb.Message) {
	for _, r := range resps {
		if !n.up || c.viol != nil {
			return
		}
		if r.GetTo() == n.id {
			c.chk.onLocalResp(n, r)
			if c.viol != nil {
				return
			}
			n.call("Step", r, func() error { return n.api.Step(r) })
		} else {
			c.netSend(n, r)
		}
	}
}

func (c *Cluster) doAppendResp(n *Node) bool {
	if len(n.appendResps) == 0 {
		return false
	}
	resps := n.appendResps[0]
	n.appendResps = n.appendResps[1:]
	c.deliverResponses(n, resps)
	return true
}

func (c *Cluster) doApplyStep(n *Node) bool {
	if !n.cfg.Async || len(n.applyQ) == 0 {
		return false
	}
	m := n.applyQ[0]
	n.applyQ = n.applyQ[1:]
	c.applyEntries(n, m.GetEntries())
	if !n.up {
		return true
	}
	n.applyResps = append(n.applyResps, m.GetResponses())
	return true
}

func (c *Cluster) doApplyResp(n *Node) bool {
	if len(n.applyResps) == 0 {
		return false
	}
	resps := n.applyResps[0]
	n.applyResps = n.applyResps[1:]
	c.deliverResponses(n, resps)
	return true
}

// ---------------------------------------------------------------------------
// clients and operators

func (c *Cluster) doPropose(n *Node, a Action) bool {
	if len(a.Tags) == 0 {
		return false
	}
	var ents []*pb.Entry
	for _, t := range a.Tags {
		key := 0
		if c.rc.NKeys > 0 {
			key = t % c.rc.NKeys
		}
		ents = append(ents, &pb.Entry{Data: makePayload(t, key, a.I)})
	}
	c.chk.onProposeCall(n, a.Tags, ents)
	var err error
	m := &pb.Message{Type: pb.MsgProp.Enum(), From: new(n.id), Entries: ents}
	wasLeader := isLeader(&n.st)
	if a.M == 1 && n.drv != nil && len(ents) == 1 && !a.B {
		// E3: the proposer's context ends between the hand-over of the proposal
		// to the run loop and the posting of its outcome
		n.drv.cancelNext = true
		c.stats.fault("proposer_context_cancelled")
	}
	if len(ents) == 1 && !a.B {
		err = n.call("Propose", m, func() error { return n.api.Propose(ents[0].GetData()) })
	} else {
		err = n.call("Propose", m, func() error { return n.api.Step(m) })
	}
	if a.J == 1 && wasLeader {
		// The client reuses its payload buffer once the call has returned. Only
		// at a leader: a leader stamps term and index on its own copy of the
		// proposal, whereas a follower forwards the proposal with the caller's
		// slice still inside the message until the transport marshals it, so
		// there the client must leave the buffer alone.
		for _, e := range ents {
			for i := range e.Data {
				e.Data[i] ^= 0xff
			}
		}
		c.stats.fault("client_buffer_reuse")
	}
	c.chk.onProposeReturn(n, a.Tags, err)
	return true
}

func buildCC(spec *CCSpec, ctx int) pb.ConfChangeI {
	cx := []byte(fmt.Sprintf("c%d", ctx))
	if spec.V1 && len(spec.Changes) == 1 {
		return &pb.ConfChange{Type: pb.ConfChangeType(spec.Changes[0].Type).Enum(), NodeId: new(spec.Changes[0].Node), Context: cx}
	}
	cc := &pb.ConfChangeV2{Transition: pb.ConfChangeTransition(spec.Transition).Enum(), Context: cx}
	for _, ch := range spec.Changes {
		cc.Changes = append(cc.Changes, &pb.ConfChangeSingle{Type: pb.ConfChangeType(ch.Type).Enum(), NodeId: new(ch.Node)})
	}
	return cc
}

func (c *Cluster) doConfChange(n *Node, a Action) bool {
	if a.CC == nil {
		return false
	}
	cc := buildCC(a.CC, a.I)
	c.chk.onConfProposeCall(n, a.I, cc)
	if len(a.Tags) > 0 {
		// a client batch: the change followed by ordinary proposals in one message
		typ, data, err := pb.MarshalConfChange(cc)
		if err != nil {
			c.chk.toolError("marshal conf change: " + err.Error())
			return true
		}
		m := &pb.Message{Type: pb.MsgProp.Enum(), From: new(n.id), Entries: []*pb.Entry{{Type: typ.Enum(), Data: data}}}
		var ents []*pb.Entry
		for _, t := range a.Tags {
			key := 0
			if c.rc.NKeys > 0 {
				key = t % c.rc.NKeys
			}
			ents = append(ents, &pb.Entry{Data: makePayload(t, key, a.J)})
		}
		m.Entries = append(m.Entries, ents...)
		c.chk.onProposeCall(n, a.Tags, ents)
		perr := n.call("ProposeConfChange", m, func() error { return n.api.Step(m) })
		c.chk.onConfProposeReturn(n, a.I, perr)
		c.chk.onProposeReturn(n, a.Tags, perr)
		return true
	}
	if a.CC2 == nil {
		err := n.call("ProposeConfChange", nil, func() error { return n.api.ProposeConfChange(cc) })
		c.chk.onConfProposeReturn(n, a.I, err)
		return true
	}
	// two changes in one proposal message (a client batching its requests)
	cc2 := buildCC(a.CC2, a.J)
	c.chk.onConfProposeCall(n, a.J, cc2)
	m := &pb.Message{Type: pb.MsgProp.Enum(), From: new(n.id)}
	for _, x := range []pb.ConfChangeI{cc, cc2} {
		typ, data, err := pb.MarshalConfChange(x)
		if err != nil {
			c.chk.toolError("marshal conf change: " + err.Error())
			return true
		}
		m.Entries = append(m.Entries, &pb.Entry{Type: typ.Enum(), Data: data})
	}
	err := n.call("ProposeConfChange", m, func() error { return n.api.Step(m) })
	c.chk.onConfProposeReturn(n, a.I, err)
	c.chk.onConfProposeReturn(n, a.J, err)
	return true
}

// doCompact is the application's log maintenance: snapshot at an applied index,
// then compact at or below it.
func (c *Cluster) doCompact(n *Node, a Action) bool {
	li, _ := n.disk.page.LastIndex()
	// The application never snapshots state that is ahead of the commit index
	// it has written (assumption A6/A10): otherwise a crash could leave a
	// durable snapshot above the durable commit index.
	// Nor does it compact beyond what raft has been told is applied
	// (storage.go: "It is the application's responsibility to not attempt to
	// compact an index greater than raftLog.applied").
	idx := min(n.app.cur.Index, li, n.disk.written.hs.GetCommit(), n.st.Applied)
	if uint64(a.I) >= idx {
		return false
	}
	idx -= uint64(a.I)
	ps, _ := n.disk.page.Snapshot()
	cur := ps.GetMetadata().GetIndex()
	did := false
	if idx > cur {
		st := n.app.hist[idx]
		if st == nil {
			return false
		}
		fi, _ := n.disk.page.FirstIndex()
		if idx < fi {
			return false
		}
		if _, err := n.disk.CreateSnapshot(idx, proto.Clone(st.Conf).(*pb.ConfState), st.encode()); err != nil {
			return false
		}
		cur = idx
		did = true
		c.stats.probe("snapshot_created")
	}
	if cur > uint64(a.J) {
		to := cur - uint64(a.J)
		fi, _ := n.disk.page.FirstIndex()
		if to >= fi && to <= li {
			if err := n.disk.Compact(to); err == nil {
				did = true
				c.stats.probe("log_compacted")
			}
		}
	}
	if !did {
		return false
	}
	if a.B {
		n.disk.Sync()
	}
	c.chk.onCompacted(n)
	c.chk.onWrite(n)
	// the node's first index (read from Storage) may have moved
	c.chk.refreshAfterStorageChange(n)
	return true
}

// ---------------------------------------------------------------------------
// crash and restart

func (c *Cluster) doCrash(n *Node, a Action) bool {
	// First, the part of the pending write group that reached the disk before
	// the crash.
	cutKind := "crash_idle"
	if a.I > 0 {
		if !n.cfg.Async && n.rd != nil && !n.persisted {
			rd := n.rd
			hasSnap := rd.Snapshot != nil && !raft.IsEmptySnap(rd.Snapshot)
			upto := a.I
			if hasSnap && !c.rc.SplitSnapshot {
				upto = 2 // atomic group (A3)
			}
			c.writeGroup(n, rd.Snapshot, rd.Entries, rd.HardState, upto)
			if hasSnap && upto == 2 {
				n.disk.Sync()
			}
			cutKind = fmt.Sprintf("crash_in_persist_cut%d", upto)
		} else if n.cfg.Async && len(n.appendQ) > 0 {
			m := n.appendQ[0]
			hasSnap := m.GetSnapshot() != nil
			upto := a.I
			if hasSnap && !c.rc.SplitSnapshot {
				upto = 2
			}
			c.writeGroup(n, m.GetSnapshot(), m.GetEntries(), hsFromMsg(m), upto)
			if hasSnap && upto == 2 {
				n.disk.Sync()
			}
			cutKind = fmt.Sprintf("crash_in_append_cut%d", upto)
		}
	} else {
		if !n.cfg.Async && n.rd != nil && !n.persisted {
			cutKind = "crash_before_persist"
		} else if n.cfg.Async && len(n.appendQ) > 0 {
			cutKind = fmt.Sprintf("crash_append_queue_lost")
			if len(n.appendQ) >= 2 {
				c.stats.probe("append_queue_behind2_at_crash")
			}
		} else if n.rd != nil && n.persisted {
			cutKind = "crash_after_persist"
		}
	}
	if len(n.appendResps) > 0 {
		c.stats.probe("crash_with_undelivered_responses")
	}
	if len(n.applyQ) > 0 {
		c.stats.fault("crash_apply_queue_lost")
	}
	unsynced := n.disk.Unsynced()
	lost, torn := n.disk.Crash(a.J, int(a.M))
	if lost > 0 {
		c.stats.fault("lost_unsynced_write")
	}
	if torn {
		c.stats.fault("torn_append")
	}
	_ = unsynced
	c.stats.fault(cutKind)
	c.stats.Crashes++
	c.chk.onCrash(n)
	n.down()
	n.rd = nil
	n.appendQ, n.appendResps, n.applyQ, n.applyResps = nil, nil, nil, nil
	c.chk.onWrite(n)
	return true
}

func (c *Cluster) doRestart(n *Node, a Action) bool {
	if n.up || n.stopped || !n.started {
		return false
	}
	dur := n.disk.dur
	snapIdx := dur.snapIndex()
	applied := snapIdx
	n.disk.view.confOverride = nil
	// state machine from the snapshot (etcd style)
	var st *appState
	if snapIdx > 0 {
		var err error
		st, err = decodeAppState(dur.snap.GetData(), dur.snap.GetMetadata().GetConfState())
		if err != nil {
			c.chk.toolError(fmt.Sprintf("restart: durable snapshot undecodable: %v", err))
			return true
		}
	} else {
		st = &appState{KV: make([]int, c.rc.NKeys), Conf: &pb.ConfState{}}
	}
	style := "restart_from_snapshot"
	if a.I >= 0 {
		// checkpoint style: latest durable checkpoint within [snapshot, durable commit]
		commit := dur.hs.GetCommit()
		var cands []uint64
		for _, k := range n.app.checkpoints {
			if k >= snapIdx && k <= commit && n.app.hist[k] != nil {
				cands = append(cands, k)
			}
		}
		if len(cands) > 0 {
			pos := len(cands) - 1 - a.I
			if pos < 0 {
				pos = 0
			}
			k := cands[pos]
			if k > snapIdx {
				applied = k
				st = n.app.hist[k].clone()
				n.disk.view.confOverride = proto.Clone(st.Conf).(*pb.ConfState)
				style = "restart_from_checkpoint"
			}
		}
	}
	n.app.cur = st.clone()
	// Checkpoints above the restart point describe a future that may not happen
	// again identically only if raft is broken; they stay valid as states of the
	// committed sequence, so keep them.
	c.stats.fault(style)
	c.stats.Restarts++
	c.startNode(n, applied, true)
	return true
}

// ---------------------------------------------------------------------------

// simLogger swallows raft's log output; Panic* panic (as the default logger
// does). With VERIF_RAFTLOG=1 the last lines are kept for diagnostics.
type simLogger struct {
	c  *Cluster
	id uint64
}

var raftLogEnabled = os.Getenv("VERIF_RAFTLOG") != ""

func (l *simLogger) keep(format string, v ...interface{}) {
	if !raftLogEnabled || l.c == nil {
		return
	}
	line := fmt.Sprintf("[step %d n%d] ", l.c.step, l.id) + fmt.Sprintf(format, v...)
	l.c.raftLog = append(l.c.raftLog, line)
	if len(l.c.raftLog) > 4000 {
		l.c.raftLog = l.c.raftLog[2000:]
	}
}

func (l *simLogger) Debug(v ...interface{})                   { l.keep("%s", fmt.Sprint(v...)) }
func (l *simLogger) Debugf(format string, v ...interface{})   { l.keep(format, v...) }
func (l *simLogger) Error(v ...interface{})                   { l.keep("%s", fmt.Sprint(v...)) }
func (l *simLogger) Errorf(format string, v ...interface{})   { l.keep(format, v...) }
func (l *simLogger) Info(v ...interface{})                    { l.keep("%s", fmt.Sprint(v...)) }
func (l *simLogger) Infof(format string, v ...interface{})    { l.keep(format, v...) }
func (l *simLogger) Warning(v ...interface{})                 { l.keep("%s", fmt.Sprint(v...)) }
func (l *simLogger) Warningf(format string, v ...interface{}) { l.keep(format, v...) }
func (l *simLogger) Fatal(v ...interface{})                   { panic(fmt.Sprint(v...)) }
func (l *simLogger) Fatalf(format string, v ...interface{})   { panic(fmt.Sprintf(format, v...)) }
func (l *simLogger) Panic(v ...interface{})                   { panic(fmt.Sprint(v...)) }
func (l *simLogger) Panicf(format string, v ...interface{})   { panic(fmt.Sprintf(format, v...)) }

// RaftLog returns the retained raft log lines (diagnostics only).
func (c *Cluster) RaftLog() []string { return c.raftLog }
