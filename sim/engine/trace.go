package engine

import (
	"encoding/json"
	"fmt"
)

// ActKind enumerates the schedulable steps of the simulation. One Action is
// one atomic step of the executor; a trace is a list of Actions. An Action
// that is not applicable in the current state is a no-op, so every sub-list of
// a trace is itself a valid schedule (that is what makes ddmin sound).
type ActKind uint8

const (
	ATick ActKind = iota
	ADeliver
	ADrop
	AReady
	APersist
	AApply
	AAdvance
	AAppendStep
	AAppendResp
	AApplyStep
	AApplyResp
	APropose
	AConfChange
	AReadIndex
	ATransfer
	ACampaign
	AForgetLeader
	AUnreachable
	ASnapReport
	ACompact
	ACrash
	ARestart
	APartition
	AHeal
	ASnapFault
	AStop
	ACheckpoint
	AHealPhase
	AVElect
	AVPropose
	AVReplicate
	AVCommit
	AVCompact
	AVSendApp
	AVHeartbeat
	AVSendSnap
	AVClosePhase
	ASnapRewrite
	AVProposeConf
	ASAppend
	ASSnap
	ASCreateSnap
	ASCompact
	ASQuery
	numActKinds
)

var actNames = [...]string{
	"Tick", "Deliver", "Drop", "Ready", "Persist", "Apply", "Advance",
	"AppendStep", "AppendResp", "ApplyStep", "ApplyResp",
	"Propose", "ConfChange", "ReadIndex", "Transfer", "Campaign", "ForgetLeader",
	"Unreachable", "SnapReport", "Compact", "Crash", "Restart", "Partition", "Heal",
	"SnapFault", "Stop", "Checkpoint", "HealPhase",
	"VElect", "VPropose", "VReplicate", "VCommit", "VCompact", "VSendApp", "VHeartbeat", "VSendSnap", "VClosePhase", "SnapRewrite", "VProposeConf",
	"SAppend", "SSnap", "SCreateSnap", "SCompact", "SQuery",
}

func (k ActKind) String() string {
	if int(k) < len(actNames) {
		return actNames[k]
	}
	return fmt.Sprintf("Act(%d)", uint8(k))
}

func (k ActKind) MarshalJSON() ([]byte, error) { return json.Marshal(k.String()) }
func (k *ActKind) UnmarshalJSON(b []byte) error {
	var s string
	if err := json.Unmarshal(b, &s); err != nil {
		return err
	}
	for i, n := range actNames {
		if n == s {
			*k = ActKind(i)
			return nil
		}
	}
	return fmt.Errorf("unknown action kind %q", s)
}

// CCSingle is one element of a configuration change.
type CCSingle struct {
	Type int    `json:"type"` // raftpb.ConfChangeType
	Node uint64 `json:"node"`
}

// CCSpec describes a configuration change proposal.
type CCSpec struct {
	V1         bool       `json:"v1,omitempty"`
	Transition int        `json:"tr,omitempty"` // raftpb.ConfChangeTransition
	Changes    []CCSingle `json:"ch,omitempty"`
}

// Action is one step. The meaning of the generic fields depends on K:
//
//	Tick{N}
//	Deliver{N=from, M=to, I=sequence number of the message on the link from->to (1 = first ever sent), B=keep a copy in flight (duplicate)}
//	Drop{N=from, M=to, I=sequence number}
//	Ready{N} Persist{N} Apply{N} Advance{N}            (Ready/Advance interface)
//	AppendStep{N} AppendResp{N} ApplyStep{N} ApplyResp{N}  (storage threads)
//	Propose{N, Tags=[tag...] (one entry per tag), I=payload size, B=batch as one MsgProp from a client (false: RawNode.Propose), J=1: the client overwrites its payload buffer after the call returned (at a leader), M=1 (E3): the proposer's context ends after the run loop took the proposal and before it posted the outcome}
//	ConfChange{N, CC, I=unique context tag; optional CC2, J=its context tag: both changes travel in one MsgProp; or Tags, J=payload size: ordinary proposals following the change in the same MsgProp}
//	ReadIndex{N, I=context tag}
//	Transfer{N, M=transferee} Campaign{N} ForgetLeader{N} Unreachable{N, M} SnapReport{N, M=peer, B=ok}
//	Compact{N, I=snapshot back-off from applied, J=compaction back-off from snapshot index, B=sync}
//	Crash{N, I=cut of the pending write group (0 none,1 snapshot+entries,2 all), J=number of unsynced journal ops that survive (-1 all), M=entries of a torn append that survive}
//	Restart{N, I=-1: Applied from snapshot (etcd style); I>=0: checkpoint style, Applied = snapshot index + I capped}
//	Partition{Part = list of groups; nodes in different groups cannot exchange newly sent messages; B=one-way (group 0 cannot send to others)}
//	Heal{}
//	SnapFault{N, I=number of Storage.Snapshot calls that return ErrSnapshotTemporarilyUnavailable}
//	SnapRewrite{N}: the application repeats the write of the snapshot it installed last (an idempotent retry); Storage must refuse it as out of date
//	Stop{N} (node leaves for good)
//	Checkpoint{N} application checkpoints its state machine durably
//	VElect{N} VPropose{N,Tags=[tag],I=size} VReplicate{N=leader,M=peer,I=back-off} VCommit{N} VCompact{N,I=back-off}
//	VSendApp{N,I=back-off of prev from the last index,J=max entries} VHeartbeat{N} VSendSnap{N}: the abstract peers of E2 (followersim)
//	HealPhase{I=seed}: marker; everything after it is produced by the deterministic heal procedure
type Action struct {
	K    ActKind    `json:"k"`
	N    uint64     `json:"n,omitempty"`
	M    uint64     `json:"m,omitempty"`
	I    int        `json:"i,omitempty"`
	J    int        `json:"j,omitempty"`
	B    bool       `json:"b,omitempty"`
	Tags []int      `json:"t,omitempty"`
	CC   *CCSpec    `json:"cc,omitempty"`
	CC2  *CCSpec    `json:"cc2,omitempty"`
	Part [][]uint64 `json:"part,omitempty"`
}

func (a Action) String() string {
	b, _ := json.Marshal(a)
	return string(b)
}

// NodeCfg is the per-node raft.Config plus application style knobs.
type NodeCfg struct {
	ID                          uint64 `json:"id"`
	ElectionTick                int    `json:"et"`
	HeartbeatTick               int    `json:"ht"`
	PreVote                     bool   `json:"prevote,omitempty"`
	CheckQuorum                 bool   `json:"checkquorum,omitempty"`
	Async                       bool   `json:"async,omitempty"`
	StepDownOnRemoval           bool   `json:"stepdown,omitempty"`
	LeaseBased                  bool   `json:"lease,omitempty"`
	DisableProposalForwarding   bool   `json:"nofwd,omitempty"`
	DisableConfChangeValidation bool   `json:"novalidate,omitempty"`
	MaxSizePerMsg               uint64 `json:"maxmsg"`
	MaxCommittedSizePerReady    uint64 `json:"maxcommitted,omitempty"`
	MaxUncommittedEntriesSize   uint64 `json:"maxuncommitted,omitempty"`
	MaxInflightMsgs             int    `json:"inflight"`
	MaxInflightBytes            uint64 `json:"inflightbytes,omitempty"`
}

// RunConfig is the swarm configuration of one run. Together with the action
// list it determines the execution completely.
type RunConfig struct {
	Seed      uint64    `json:"seed"` // run seed: feeds the election-timeout draws
	Nodes     []NodeCfg `json:"nodes"`
	Voters    []uint64  `json:"voters"`
	Learners  []uint64  `json:"learners,omitempty"`
	Bootstrap bool      `json:"bootstrap,omitempty"` // RawNode.Bootstrap instead of a pre-seeded snapshot
	BaseIndex uint64    `json:"base,omitempty"`      // index of the pre-seeded snapshot
	NKeys     int       `json:"nkeys"`
	// SplitSnapshot enables the labelled fault kind crash_split_snapshot (a
	// write group containing a snapshot is not atomic). Off in all property
	// profiles (assumption A3).
	SplitSnapshot bool `json:"split_snapshot,omitempty"`
	// Virtual lists the ids of abstract peers (E2 followersim): members of the
	// configuration that are modelled, not run.
	Virtual []uint64 `json:"virtual,omitempty"`
	// NodeAPI (E3 nodesim): every node is driven through the channel-based
	// raft.Node (node.go) with its run loop goroutine under the simulator's
	// schedule, instead of through the RawNode.
	NodeAPI bool `json:"node_api,omitempty"`
	// StoreSim (E4 storesim): no raft node runs; the first node's in-memory
	// storage is driven directly by writer, application and reader.
	StoreSim bool `json:"store_sim,omitempty"`
	// ByRef: the transport is in-process and hands the receiver the very
	// message object the sender produced (entries, snapshot and context share
	// memory with the sender's log) instead of unmarshalling a copy; a
	// duplicate is a retransmission and is decoded anew.
	ByRef bool `json:"by_ref,omitempty"`
}

func (rc *RunConfig) node(id uint64) *NodeCfg {
	for i := range rc.Nodes {
		if rc.Nodes[i].ID == id {
			return &rc.Nodes[i]
		}
	}
	return nil
}

// Violation is an oracle failure.
type Violation struct {
	Property string `json:"property"`
	Oracle   string `json:"oracle"`
	Node     uint64 `json:"node,omitempty"`
	Msg      string `json:"msg"`
	Step     int    `json:"step"`
	// Sig is a coarse, stable signature used to match known findings and to
	// decide whether a shrunk trace still shows "the same" violation.
	Sig string `json:"sig,omitempty"`
}

func (v *Violation) String() string {
	return fmt.Sprintf("%s/%s node=%d step=%d: %s", v.Property, v.Oracle, v.Node, v.Step, v.Msg)
}

// ReplayFile is what a violation report points to.
type ReplayFile struct {
	Tool      string     `json:"tool"`
	Property  string     `json:"property"`
	Profile   string     `json:"profile"`
	VerifSeed uint64     `json:"verif_seed"`
	RunIndex  int        `json:"run_index"`
	Config    RunConfig  `json:"config"`
	Actions   []Action   `json:"actions"`
	Violation *Violation `json:"violation"`
	Digest    string     `json:"digest"`
	OrigLen   int        `json:"orig_len"`
	Note      string     `json:"note,omitempty"`
}
