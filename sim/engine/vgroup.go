package engine

import (
	"fmt"
	"os"

	pb "go.etcd.io/raft/v3/raftpb"
	"google.golang.org/protobuf/proto"
)

// E2 "followersim": one real RawNode (a learner) among abstract peers. The
// peers are a small executable model of raft leaders and voters (terms, logs,
// the election restriction, majority commit) with no raft code in it; they send
// the real node whatever a legitimate leader's log allows: MsgApp anchored at
// any index at or above what the node has acknowledged, heartbeats, snapshots,
// late and duplicated, from current and deposed leaders. Sequences that need
// three alternating leaders and a stalled storage thread (the ABA race of
// rawnode.go) are routine here and astronomically rare in the whole-group
// simulation.
//
// The model lives in the executor and is driven by actions, so replay and
// minimisation work as for E1.

type vPeer struct {
	id       uint64
	term     uint64
	leader   bool
	base     uint64 // compaction point
	baseTerm uint64
	log      []*pb.Entry // log[i] has index base+1+i
	commit   uint64
	match    uint64            // as leader: highest index the real node acknowledged in this term
	acked    map[uint64]uint64 // as leader: per abstract peer, the prefix it acknowledged in this term
}

func (p *vPeer) last() uint64 { return p.base + uint64(len(p.log)) }
func (p *vPeer) termAt(i uint64) (uint64, bool) {
	if i == p.base {
		return p.baseTerm, true
	}
	if i < p.base || i > p.last() {
		return 0, false
	}
	return p.log[i-p.base-1].GetTerm(), true
}
func (p *vPeer) lastTerm() uint64 { t, _ := p.termAt(p.last()); return t }
func (p *vPeer) entry(i uint64) *pb.Entry {
	if i <= p.base || i > p.last() {
		return nil
	}
	return p.log[i-p.base-1]
}

// VGroup is the abstract part of the group.
type VGroup struct {
	c     *Cluster
	real  uint64
	ids   []uint64
	peers map[uint64]*vPeer
	conf  *pb.ConfState
	// committed sequence (ground truth) from base+1, with the state machine
	// state after each index
	base      uint64
	committed []*pb.Entry
	sm        *appState
	stateAt   map[uint64][]byte
	// membership: the model's voters never change; committed conf-change
	// entries only add and remove phantom learners (ids no node has), so that
	// the real node goes through configuration changes, snapshots carry the
	// configuration of their index and that configuration can differ from the
	// one the node is in
	ref       *RefConf
	confAt    map[uint64]*pb.ConfState
	maxTerm   uint64
	Elections int
}

func newVGroup(c *Cluster, real uint64, ids []uint64, conf *pb.ConfState, init *appState) *VGroup {
	g := &VGroup{c: c, real: real, ids: ids, peers: map[uint64]*vPeer{}, conf: conf, base: init.Index, sm: init.clone(), stateAt: map[uint64][]byte{},
		ref: refConfFromConfState(conf), confAt: map[uint64]*pb.ConfState{}}
	g.confAt[init.Index] = conf
	for _, id := range ids {
		g.peers[id] = &vPeer{id: id, term: 1, base: init.Index, baseTerm: 1, commit: init.Index}
	}
	g.stateAt[init.Index] = init.encode()
	g.maxTerm = 1
	return g
}

func (g *VGroup) truthAt(i uint64) *pb.Entry {
	if i <= g.base || i > g.base+uint64(len(g.committed)) {
		return nil
	}
	return g.committed[i-g.base-1]
}

func (g *VGroup) commitMax() uint64 { return g.base + uint64(len(g.committed)) }

// upToDate reports whether a's log is at least as up to date as b's.
func upToDate(a, b *vPeer) bool {
	at, bt := a.lastTerm(), b.lastTerm()
	return at > bt || (at == bt && a.last() >= b.last())
}

// elect makes p leader of a new term if a majority of the abstract voters
// (p itself and every peer whose log is not more up to date) would vote for it.
func (g *VGroup) elect(id uint64) bool {
	p := g.peers[id]
	if p == nil {
		return false
	}
	var voters []*vPeer
	for _, qid := range g.ids {
		q := g.peers[qid]
		if q == p || upToDate(p, q) {
			voters = append(voters, q)
		}
	}
	if len(voters) < len(g.ids)/2+1 {
		return false
	}
	g.maxTerm++
	t := g.maxTerm
	for _, q := range voters {
		q.term = t
		q.leader = false
	}
	// model self-check: leader completeness
	for i := max(g.base, p.base) + 1; i <= g.commitMax(); i++ {
		e := p.entry(i)
		if e == nil || e.GetTerm() != g.truthAt(i).GetTerm() {
			g.c.chk.toolError(fmt.Sprintf("vgroup: peer %d elected at term %d without committed entry %d; voters %d\n%s", id, t, i, len(voters), g.dump()))
			return true
		}
	}
	p.leader = true
	p.match = 0
	p.acked = map[uint64]uint64{}
	p.log = append(p.log, &pb.Entry{Term: new(t), Index: new(p.last() + 1)})
	g.registerCreated(p)
	g.Elections++
	return true
}

// proposeConf lets a model leader append a configuration change that adds or
// removes a phantom learner.
func (g *VGroup) proposeConf(id uint64, ctx, kind int) bool {
	p := g.peers[id]
	if p == nil || !p.leader {
		return false
	}
	phantom := uint64(7000001 + kind%2)
	for _, x := range g.c.ids {
		if x == phantom {
			return false
		}
	}
	typ := pb.ConfChangeAddLearnerNode
	if (kind/2)%2 == 1 {
		typ = pb.ConfChangeRemoveNode
	}
	cc := &pb.ConfChangeV2{Context: []byte(fmt.Sprintf("c%d", ctx)), Changes: []*pb.ConfChangeSingle{{Type: typ.Enum(), NodeId: new(phantom)}}}
	// A change is legal only on top of the configuration it was made for: the
	// leader proposes one when its log holds no configuration change that is
	// not committed yet (so the configuration at the end of its log is the
	// committed one), a simple change only outside a joint configuration.
	for i := g.commitMax() + 1; i <= p.last(); i++ {
		if e := p.entry(i); e != nil && e.GetType() != pb.EntryNormal {
			return false
		}
	}
	if kind < 4 && g.ref.Joint() {
		return false
	}
	if kind >= 4 {
		// joint changes: the voters stay the same, so both majorities coincide
		// and the model's voting and commit rules are unaffected
		switch kind {
		case 4, 5:
			if g.ref.Joint() {
				return false
			}
			tr := pb.ConfChangeTransitionJointExplicit
			if kind == 5 {
				tr = pb.ConfChangeTransitionJointImplicit
			}
			cc.Transition = tr.Enum()
		default:
			if !g.ref.Joint() {
				return false
			}
			cc.Changes = nil
			if g.ref.Auto {
				// what a raft leader proposes by itself: no payload at all
				cc.Context = nil
			}
		}
	}
	et, data, err := pb.MarshalConfChange(cc)
	if err != nil {
		g.c.chk.toolError("vgroup: marshal conf change: " + err.Error())
		return false
	}
	if len(data) == 0 {
		data = nil // as it arrives after a trip over the wire
	}
	p.log = append(p.log, &pb.Entry{Term: new(p.term), Index: new(p.last() + 1), Type: et.Enum(), Data: data})
	g.registerCreated(p)
	if data != nil {
		k := g.c.chk
		key := fmt.Sprintf("c%d", ctx)
		k.ccProposed[key] = data
		k.ccType[key] = et
	}
	return true
}

// registerCreated enters the entry a model leader has just created into the
// log-matching table (C03 log.match): (index, term) determines the entry and
// the term of its predecessor in every log of the group, the abstract peers'
// logs included, so the real node's log is judged against them as well.
func (g *VGroup) registerCreated(p *vPeer) {
	e := p.log[len(p.log)-1]
	pt, ok := p.termAt(e.GetIndex() - 1)
	key := lmKey{e.GetIndex(), e.GetTerm()}
	if _, dup := g.c.chk.lm[key]; dup {
		g.c.chk.toolError(fmt.Sprintf("vgroup: two entries created with index %d and term %d", key.index, key.term))
		return
	}
	g.c.chk.lm[key] = lmVal{hash: hashEntry(e), prevTerm: pt, prevKnown: ok}
}

func (g *VGroup) propose(id uint64, tag, size int) bool {
	p := g.peers[id]
	if p == nil || !p.leader {
		return false
	}
	key := 0
	if g.c.rc.NKeys > 0 {
		key = tag % g.c.rc.NKeys
	}
	data := makePayload(tag, key, size)
	p.log = append(p.log, &pb.Entry{Term: new(p.term), Index: new(p.last() + 1), Data: data})
	g.registerCreated(p)
	// the payload is a legitimate client proposal
	k := g.c.chk
	k.proposed[tag] = data
	k.propState[tag] = &propRec{calls: 1, deliveries: 1 << 20}
	return true
}

// replicate copies the leader's log up to index upto onto peer q (AppendEntries
// semantics: the common prefix stays, a conflicting suffix is replaced).
func (g *VGroup) replicate(lid, qid uint64, backoff int) bool {
	p, q := g.peers[lid], g.peers[qid]
	if p == nil || q == nil || p == q || !p.leader || q.term > p.term {
		return false
	}
	q.term = p.term
	q.leader = false
	upto := p.last()
	if uint64(backoff) < upto-p.base {
		upto -= uint64(backoff)
	} else {
		upto = p.base
	}
	if qt, ok := q.termAt(p.base); p.base > q.base && (!ok || qt != p.baseTerm) {
		// q does not hold the leader's compaction point (it is behind it, or
		// holds a conflicting uncommitted entry there): snapshot
		q.base, q.baseTerm, q.log = p.base, p.baseTerm, nil
		q.commit = max(q.commit, p.base)
	}
	// common point: the larger compaction point (committed, hence equal), then
	// as far as the terms agree
	cidx := max(p.base, q.base)
	for i := cidx + 1; i <= min(upto, q.last(), p.last()); i++ {
		pt, _ := p.termAt(i)
		qt, _ := q.termAt(i)
		if pt != qt {
			break
		}
		cidx = i
	}
	if cidx < upto {
		if cidx < q.last() {
			q.log = q.log[:cidx-q.base] // conflicting suffix
		}
		for i := cidx + 1; i <= upto; i++ {
			q.log = append(q.log, p.entry(i))
		}
	}
	if c := min(p.commit, max(upto, cidx)); c > q.commit {
		q.commit = c
	}
	// q acknowledges the prefix to the leader of this term
	if a := max(upto, cidx); a > p.acked[q.id] {
		p.acked[q.id] = a
	}
	return true
}

// commitAdvance lets the leader commit the largest own-term index stored on a
// majority of the abstract voters.
func (g *VGroup) commitAdvance(id uint64) bool {
	p := g.peers[id]
	if p == nil || !p.leader {
		return false
	}
	best := p.commit
	for i := p.last(); i > p.commit; i-- {
		t, _ := p.termAt(i)
		if t != p.term {
			break
		}
		// the leader counts itself and the peers that acknowledged the index to
		// it in this term (holding the entry is not enough: a peer may have got
		// it from a later leader, whose own entry decides its fate)
		n := 1
		for _, qid := range g.ids {
			if qid != p.id && p.acked[qid] >= i {
				n++
			}
		}
		if n >= len(g.ids)/2+1 {
			best = i
			break
		}
	}
	if best == p.commit {
		return false
	}
	p.commit = best
	// extend the ground truth
	for i := g.commitMax() + 1; i <= best; i++ {
		e := p.entry(i)
		if e == nil {
			g.c.chk.toolError(fmt.Sprintf("vgroup: leader %d commits %d without holding it", id, i))
			return true
		}
		g.committed = append(g.committed, e)
		switch e.GetType() {
		case pb.EntryConfChangeV2:
			g.sm.Chain = chainHash(g.sm.Chain, i, hashEntry(e))
			g.sm.Index = i
			if cc, _, err := decodeCC(e); err == nil {
				_, g.ref = appDecide(g.ref, cc)
			} else {
				g.c.chk.toolError("vgroup: conf change does not decode: " + err.Error())
			}
		case pb.EntryNormal:
			g.sm.Chain = chainHash(g.sm.Chain, i, hashEntry(e))
			g.sm.Index = i
			if tag, key, ok := parsePayload(e.GetData()); ok && key >= 0 && key < len(g.sm.KV) && !g.sm.seen(tag) {
				g.sm.KV[key] = tag
				g.sm.markSeen(tag)
			}
		}
		g.stateAt[i] = g.sm.encode()
		g.confAt[i] = g.ref.ConfState()
	}
	// consistency of the model itself: a committed index never changes
	for i := g.base + 1; i <= best; i++ {
		if e := p.entry(i); e != nil && e != g.truthAt(i) && (e.GetTerm() != g.truthAt(i).GetTerm()) {
			g.c.chk.toolError(fmt.Sprintf("vgroup: model lost a committed entry at %d (leader %d)\n%s", i, id, g.dump()))
			return true
		}
	}
	if best > g.c.chk.leaderCommitMax {
		g.c.chk.leaderCommitMax = best
	}
	return true
}

func (g *VGroup) compact(id uint64, backoff int) bool {
	p := g.peers[id]
	if p == nil {
		return false
	}
	to := p.commit
	if uint64(backoff) >= to-p.base {
		return false
	}
	to -= uint64(backoff)
	if to <= p.base || to > p.last() {
		return false
	}
	t, _ := p.termAt(to)
	p.log = append([]*pb.Entry(nil), p.log[to-p.base:]...)
	p.base, p.baseTerm = to, t
	return true
}

func (g *VGroup) send(p *vPeer, m *pb.Message) {
	m.From = new(p.id)
	m.To = new(g.real)
	m.Term = new(p.term)
	c := g.c
	b, err := proto.Marshal(m)
	if err != nil {
		c.chk.toolError("vgroup marshal: " + err.Error())
		return
	}
	k := linkKey{p.id, g.real}
	c.nextMsg++
	c.linkSeq[k]++
	f := &Flight{Seq: c.linkSeq[k], ID: c.nextMsg, From: p.id, To: g.real, Bytes: b, Type: m.GetType(), Term: m.GetTerm(), SentStep: c.step, HasSnap: m.GetSnapshot() != nil}
	c.links[k] = append(c.links[k], f)
	c.NewFlights = append(c.NewFlights, f)
	c.stats.MsgsSent++
	c.stats.MsgsByType["v"+m.GetType().String()]++
}

func (g *VGroup) snapshotOf(p *vPeer) *pb.Snapshot {
	data, ok := g.stateAt[p.base]
	if !ok {
		return nil
	}
	cs, ok := g.confAt[p.base]
	if !ok {
		return nil
	}
	return &pb.Snapshot{Data: data, Metadata: &pb.SnapshotMetadata{Index: new(p.base), Term: new(p.baseTerm), ConfState: proto.Clone(cs).(*pb.ConfState)}}
}

// sendApp sends a MsgApp anchored at prev = max(match, last-backoff) with up to
// maxEnts entries; if prev is compacted away a snapshot is sent instead.
func (g *VGroup) sendApp(id uint64, backoff, maxEnts int) bool {
	p := g.peers[id]
	if p == nil || !p.leader {
		return false
	}
	prev := p.last()
	if uint64(backoff) <= prev {
		prev -= uint64(backoff)
	} else {
		prev = 0
	}
	prev = max(prev, p.match)
	if prev > p.last() {
		prev = p.last()
	}
	if prev < p.base {
		if p.base > g.base {
			return g.sendSnap(id)
		}
		prev = p.base // the pre-seeded base, which the real node has as well
	}
	pt, _ := p.termAt(prev)
	var ents []*pb.Entry
	for i := prev + 1; i <= p.last() && len(ents) < maxEnts; i++ {
		ents = append(ents, p.entry(i))
	}
	g.send(p, &pb.Message{Type: pb.MsgApp.Enum(), Index: new(prev), LogTerm: new(pt), Entries: ents, Commit: new(p.commit)})
	return true
}

func (g *VGroup) sendHeartbeat(id uint64) bool {
	p := g.peers[id]
	if p == nil || !p.leader {
		return false
	}
	g.send(p, &pb.Message{Type: pb.MsgHeartbeat.Enum(), Commit: new(min(p.match, p.commit))})
	return true
}

func (g *VGroup) sendSnap(id uint64) bool {
	p := g.peers[id]
	if p == nil || !p.leader || p.base <= g.base {
		return false
	}
	s := g.snapshotOf(p)
	if s == nil {
		return false
	}
	g.send(p, &pb.Message{Type: pb.MsgSnap.Enum(), Snapshot: s})
	g.c.stats.probe("v_snapshot_sent")
	g.c.stats.probe("snapshot_sent")
	return true
}

// receive consumes a message from the real node addressed to an abstract peer.
func (g *VGroup) receive(id uint64, m *pb.Message) {
	p := g.peers[id]
	if p == nil {
		return
	}
	if m.GetTerm() > p.term {
		p.term = m.GetTerm()
		p.leader = false
		if p.term > g.maxTerm {
			g.maxTerm = p.term
		}
	}
	if m.GetType() == pb.MsgAppResp && !m.GetReject() && p.leader && m.GetTerm() == p.term && m.GetIndex() <= p.last() {
		if m.GetIndex() > p.match {
			p.match = m.GetIndex()
		}
	}
}

// exec runs a virtual action.
func (g *VGroup) exec(a Action) bool {
	ok := g.exec1(a)
	if vtrace && ok && a.K != AVSendApp && a.K != AVHeartbeat && a.K != AVSendSnap && a.K != AVPropose {
		fmt.Printf("step %d %s\n%s", g.c.step, a, g.dump())
	}
	return ok
}

var vtrace = os.Getenv("VERIF_VTRACE") != ""

func (g *VGroup) exec1(a Action) bool {
	switch a.K {
	case AVElect:
		return g.elect(a.N)
	case AVPropose:
		if len(a.Tags) != 1 {
			return false
		}
		return g.propose(a.N, a.Tags[0], a.I)
	case AVReplicate:
		return g.replicate(a.N, a.M, a.I)
	case AVCommit:
		return g.commitAdvance(a.N)
	case AVCompact:
		return g.compact(a.N, a.I)
	case AVSendApp:
		return g.sendApp(a.N, a.I, max(a.J, 0))
	case AVHeartbeat:
		return g.sendHeartbeat(a.N)
	case AVSendSnap:
		return g.sendSnap(a.N)
	case AVProposeConf:
		return g.proposeConf(a.N, a.I, a.J)
	}
	return false
}

// checkAgainstTruth is the follower-side C01/C06 oracle in E2: what the real
// node commits is the abstract group's committed sequence.
func (g *VGroup) checkAgainstTruth(k *Checker, n *Node, i uint64, e *pb.Entry) {
	if i <= g.base {
		return
	}
	k.count("vs.truth")
	if i > g.commitMax() {
		k.report("C06", "cm.follower", n, fmt.Sprintf("commit index covers %d but the group has committed only up to %d", i, g.commitMax()), "cm.follower.virtual")
		return
	}
	t := g.truthAt(i)
	if t.GetTerm() != e.GetTerm() || hashEntry(t) != hashEntry(e) {
		k.report("C01", "sm.commit_agree", n, fmt.Sprintf("commits (index=%d, term=%d) but the group committed (index=%d, term=%d)", i, e.GetTerm(), i, t.GetTerm()), "sm.commit_agree.virtual")
		k.report("C06", "cm.follower_match", n, fmt.Sprintf("commit index covers index %d where this node holds term %d but the committed entry has term %d", i, e.GetTerm(), t.GetTerm()), "")
	}
}

// leaderID returns the abstract leader with the highest term (0 if none).
func (g *VGroup) leaderID() uint64 {
	var best uint64
	var bt uint64
	for _, id := range g.ids {
		if p := g.peers[id]; p.leader && p.term >= bt {
			best, bt = id, p.term
		}
	}
	return best
}

// RunFollowerClose ends an E2 run: faults stop, the newest abstract leader
// replicates and commits everything and keeps sending to the real node until
// it has caught up; then the node's state machine is compared with the group's.
func RunFollowerClose(c *Cluster) (caughtUp bool) {
	g := c.vg
	if g == nil || c.viol != nil {
		return false
	}
	c.Do(Action{K: AVClosePhase})
	n := c.nodes[g.real]
	if !n.up {
		c.Do(Action{K: ARestart, N: n.id, I: -1})
	}
	lead := g.leaderID()
	if lead == 0 || g.peers[lead].term < g.maxTerm {
		for _, id := range g.ids {
			if c.Do(Action{K: AVElect, N: id}) {
				lead = id
				break
			}
		}
	}
	if lead == 0 {
		return false
	}
	for iter := 0; iter < 60 && c.viol == nil && n.up; iter++ {
		for _, id := range g.ids {
			if id != lead {
				c.Do(Action{K: AVReplicate, N: lead, M: id})
			}
		}
		c.Do(Action{K: AVCommit, N: lead})
		c.Do(Action{K: AVSendApp, N: lead, I: 1 << 30, J: 64})
		c.Do(Action{K: AVHeartbeat, N: lead})
		// drain the real node and both directions of the links
		for k := 0; k < 40 && c.viol == nil && n.up; k++ {
			did := false
			if n.cfg.Async {
				did = c.Do(Action{K: AReady, N: n.id}) || did
				for len(n.appendQ) > 0 && n.up && c.viol == nil {
					c.Do(Action{K: AAppendStep, N: n.id})
					did = true
				}
				for len(n.appendResps) > 0 && n.up && c.viol == nil {
					c.Do(Action{K: AAppendResp, N: n.id})
					did = true
				}
				for len(n.applyQ) > 0 && n.up && c.viol == nil {
					c.Do(Action{K: AApplyStep, N: n.id})
					did = true
				}
				for len(n.applyResps) > 0 && n.up && c.viol == nil {
					c.Do(Action{K: AApplyResp, N: n.id})
					did = true
				}
			} else {
				if n.rd == nil {
					did = c.Do(Action{K: AReady, N: n.id}) || did
				}
				if n.rd != nil {
					c.Do(Action{K: APersist, N: n.id})
					c.Do(Action{K: AApply, N: n.id})
					c.Do(Action{K: AAdvance, N: n.id})
					did = true
				}
			}
			for _, id := range g.ids {
				for _, k := range []linkKey{{id, n.id}, {n.id, id}} {
					for len(c.links[k]) > 0 && c.viol == nil {
						c.Do(Action{K: ADeliver, N: k.from, M: k.to, I: c.links[k][0].Seq})
						did = true
					}
				}
			}
			if !did {
				break
			}
		}
		if n.up && n.st.Committed == g.commitMax() && n.app.cur.Index == g.commitMax() && g.peers[lead].commit == g.peers[lead].last() {
			caughtUp = true
			break
		}
	}
	if !caughtUp && c.viol == nil && n.up {
		c.chk.count("lv.follower_catchup")
		c.chk.report("C15", "lv.follower_catchup", n, fmt.Sprintf("with faults stopped and a stable leader sending, the node did not catch up: commit %d applied %d state machine %d, group committed %d", n.st.Committed, n.st.Applied, n.app.cur.Index, g.commitMax()), "")
	}
	if caughtUp && c.viol == nil {
		c.chk.count("vs.final")
		want, _ := decodeAppState(g.stateAt[g.commitMax()], nil)
		if want != nil && (want.Chain != n.app.cur.Chain || want.Index != n.app.cur.Index) {
			c.chk.report("C01", "sm.chain", n, fmt.Sprintf("state machine at index %d differs from the group's state machine", n.app.cur.Index), "sm.chain.virtual")
		}
		c.stats.probe("v_caught_up")
	}
	return caughtUp
}

func (g *VGroup) dump() string {
	s := fmt.Sprintf("truth: base=%d commit=%d terms=", g.base, g.commitMax())
	for _, e := range g.committed {
		s += fmt.Sprintf("%d ", e.GetTerm())
	}
	s += "\n"
	for _, id := range g.ids {
		p := g.peers[id]
		s += fmt.Sprintf("peer %d: term=%d leader=%v base=%d/%d commit=%d match=%d log=", id, p.term, p.leader, p.base, p.baseTerm, p.commit, p.match)
		for _, e := range p.log {
			s += fmt.Sprintf("%d ", e.GetTerm())
		}
		s += "\n"
	}
	return s
}

// CloseDebug describes why the closing phase did not catch up (diagnostics).
func (c *Cluster) CloseDebug() string {
	if c.vg == nil {
		return ""
	}
	return c.vg.dump() + c.DebugState()
}
