package engine

import (
	"encoding/binary"
	"fmt"
	"hash/fnv"

	pb "go.etcd.io/raft/v3/raftpb"
)

// Payload of a normal proposal: "<tag>,<key>|" followed by padding. Every
// proposal is a write "register key := tag"; tags are unique, so every value a
// read returns is attributable to exactly one write.
func makePayload(tag, key, size int) []byte {
	h := fmt.Sprintf("%d,%d|", tag, key)
	if size < len(h) {
		size = len(h)
	}
	b := make([]byte, size)
	copy(b, h)
	for i := len(h); i < size; i++ {
		b[i] = byte('a' + (tag+i)%26)
	}
	return b
}

func parsePayload(b []byte) (tag, key int, ok bool) {
	i := 0
	neg := false
	if i < len(b) && b[i] == '-' {
		neg = true
		i++
	}
	start := i
	for i < len(b) && b[i] >= '0' && b[i] <= '9' {
		tag = tag*10 + int(b[i]-'0')
		i++
	}
	if i == start || i >= len(b) || b[i] != ',' {
		return 0, 0, false
	}
	i++
	start = i
	for i < len(b) && b[i] >= '0' && b[i] <= '9' {
		key = key*10 + int(b[i]-'0')
		i++
	}
	if i == start || i >= len(b) || b[i] != '|' {
		return 0, 0, false
	}
	if neg {
		tag = -tag
	}
	return tag, key, true
}

// hashEntry hashes what C01 compares: term, type, payload (not the index,
// which is the table key).
func hashEntry(e *pb.Entry) uint64 {
	h := fnv.New64a()
	var b [17]byte
	binary.LittleEndian.PutUint64(b[0:], e.GetTerm())
	binary.LittleEndian.PutUint64(b[8:], uint64(e.GetType()))
	if e.GetData() == nil {
		b[16] = 0
	} else {
		b[16] = 1
	}
	h.Write(b[:])
	h.Write(e.GetData())
	return h.Sum64()
}

func chainHash(prev uint64, index uint64, eh uint64) uint64 {
	return Mix(prev^(index*0x9e3779b97f4a7c15), eh)
}

// appState is the replicated state machine at one applied index.
type appState struct {
	Index uint64
	Chain uint64
	Conf  *pb.ConfState
	KV    []int // register file: value = tag of the last write, 0 = never written
	// Seen is the set of write tags already applied (bitset). Forwarded
	// proposals can be duplicated by the network; like any real state machine
	// on top of raft the application applies a client write at most once.
	Seen []uint64
}

func (s *appState) seen(tag int) bool {
	if tag < 0 {
		return false
	}
	w := tag / 64
	return w < len(s.Seen) && s.Seen[w]&(1<<(uint(tag)%64)) != 0
}

func (s *appState) markSeen(tag int) {
	if tag < 0 {
		return
	}
	w := tag / 64
	for len(s.Seen) <= w {
		s.Seen = append(s.Seen, 0)
	}
	s.Seen[w] |= 1 << (uint(tag) % 64)
}

func (s *appState) clone() *appState {
	c := *s
	c.KV = append([]int(nil), s.KV...)
	c.Seen = append([]uint64(nil), s.Seen...)
	return &c
}

func (s *appState) encode() []byte {
	b := make([]byte, 0, 32+8*len(s.KV))
	b = binary.LittleEndian.AppendUint64(b, s.Index)
	b = binary.LittleEndian.AppendUint64(b, s.Chain)
	b = binary.LittleEndian.AppendUint64(b, uint64(len(s.KV)))
	for _, v := range s.KV {
		b = binary.LittleEndian.AppendUint64(b, uint64(int64(v)))
	}
	for _, v := range s.Seen {
		b = binary.LittleEndian.AppendUint64(b, v)
	}
	return b
}

func decodeAppState(b []byte, cs *pb.ConfState) (*appState, error) {
	if len(b) < 24 {
		return nil, fmt.Errorf("snapshot data too short (%d)", len(b))
	}
	s := &appState{Conf: cs}
	s.Index = binary.LittleEndian.Uint64(b[0:])
	s.Chain = binary.LittleEndian.Uint64(b[8:])
	n := int(binary.LittleEndian.Uint64(b[16:]))
	if len(b) < 24+8*n || (len(b)-24)%8 != 0 {
		return nil, fmt.Errorf("snapshot data length %d for %d keys", len(b), n)
	}
	for i := 0; i < n; i++ {
		s.KV = append(s.KV, int(int64(binary.LittleEndian.Uint64(b[24+8*i:]))))
	}
	for off := 24 + 8*n; off < len(b); off += 8 {
		s.Seen = append(s.Seen, binary.LittleEndian.Uint64(b[off:]))
	}
	return s, nil
}

// App is one node's application: the volatile state machine plus the durable
// checkpoints it has taken (checkpoint-style restart, assumption A6).
type App struct {
	cur *appState
	// hist[i] is the state after applying index i, kept for every index applied
	// by this node in any incarnation; a Checkpoint action marks one durable.
	hist        map[uint64]*appState
	checkpoints []uint64 // indexes with a durable checkpoint, ascending
	// maxApplied is the largest index ever applied by any incarnation.
	maxApplied uint64
}

func newApp(init *appState) *App {
	a := &App{cur: init.clone(), hist: map[uint64]*appState{}}
	a.hist[init.Index] = init.clone()
	a.maxApplied = init.Index
	return a
}

func (a *App) remember() {
	a.hist[a.cur.Index] = a.cur.clone()
	if a.cur.Index > a.maxApplied {
		a.maxApplied = a.cur.Index
	}
	// Bound memory: forget states far below the newest checkpoint.
	if len(a.hist) > 600 {
		var floor uint64
		if len(a.checkpoints) > 0 {
			floor = a.checkpoints[len(a.checkpoints)-1]
		}
		for k := range a.hist {
			if k+300 < a.cur.Index && k != floor {
				delete(a.hist, k)
			}
		}
	}
}

// applyNormal applies a normal entry.
func (a *App) applyNormal(e *pb.Entry) {
	a.cur.Chain = chainHash(a.cur.Chain, e.GetIndex(), hashEntry(e))
	a.cur.Index = e.GetIndex()
	if tag, key, ok := parsePayload(e.GetData()); ok && key >= 0 && key < len(a.cur.KV) && !a.cur.seen(tag) {
		a.cur.KV[key] = tag
		a.cur.markSeen(tag)
	}
}

// applyConf records a conf-change entry; cs is what the node's membership is
// afterwards (returned by ApplyConfChange, or unchanged when skipped).
func (a *App) applyConf(e *pb.Entry, cs *pb.ConfState) {
	a.cur.Chain = chainHash(a.cur.Chain, e.GetIndex(), hashEntry(e))
	a.cur.Index = e.GetIndex()
	if cs != nil {
		a.cur.Conf = cs
	}
}
