package engine

import (
	"bytes"
	"fmt"

	raft "go.etcd.io/raft/v3"
	pb "go.etcd.io/raft/v3/raftpb"
)

// refreshLog re-reads the node's combined log view and runs the oracles that
// look at log contents on every position that changed: C03 (matching, shape),
// C01/C04 (committed entries never replaced), C18 (view vs model), C20
// (proposal integrity).
func (k *Checker) refreshLog(n *Node, st *raft.VerifState, view bool) {
	x := k.nc[n.id]
	var ents []*pb.Entry
	var prevTerm uint64
	var prevErr error
	bad := ""
	func() {
		defer func() {
			if r := recover(); r != nil {
				bad = fmt.Sprintf("%v", r)
			}
		}()
		var err error
		ents, err = n.rn.VerifLogEntries(st.FirstIndex, st.LastIndex+1)
		if err != nil {
			bad = err.Error()
		}
		// The term at the compaction boundary is asked for only when the
		// boundary moved: the simulator's own term-at queries go through the
		// code under check and must not disturb it more than necessary (a
		// seeded change kept a one-slot cache of the last term looked up in
		// storage; a query after every step would have kept that cache fresh
		// and the defect out of sight).
		if x.prevOK && x.logFirst == st.FirstIndex && k.opt.Target != "C18" && k.opt.Target != "" {
			prevTerm, prevErr = x.prevTerm, nil
		} else {
			prevTerm, prevErr = n.rn.VerifLogTerm(st.FirstIndex - 1)
		}
	}()
	if bad != "" {
		if k.opt.Debug {
			fmt.Printf("DEBUG step %d node %d: view [%d,%d] unreadable: %s\n", k.c.step, n.id, st.FirstIndex, st.LastIndex, bad)
		}
		// the log claims the index range [first,last] and cannot produce the
		// entries in it: under C18 the view does not behave like a list, under
		// C03 the log's positions are not contiguous up to its last index
		k.report2("C18", "lg.view_unreadable", "C03", "log.shape", n, fmt.Sprintf("combined log view [%d,%d] cannot be read: %s", st.FirstIndex, st.LastIndex, bad), "")
		return
	}
	k.count("log.shape")
	// C03 log.shape: contiguous, terms non-decreasing.
	if k.opt.Debug && uint64(len(ents)) != st.LastIndex+1-st.FirstIndex {
		fmt.Printf("DEBUG step %d node %d: view [%d,%d] returned %d entries\n", k.c.step, n.id, st.FirstIndex, st.LastIndex, len(ents))
	}
	if uint64(len(ents)) != st.LastIndex+1-st.FirstIndex {
		k.report("C03", "log.shape", n, fmt.Sprintf("log view [%d,%d] returned %d entries", st.FirstIndex, st.LastIndex, len(ents)), "")
		return
	}
	oldFirst, old := x.logFirst, x.log
	changed := false
	pt := prevTerm
	ptKnown := prevErr == nil
	for i, e := range ents {
		idx := st.FirstIndex + uint64(i)
		if e.GetIndex() != idx {
			k.report("C03", "log.shape", n, fmt.Sprintf("position %d of the log holds an entry with index %d", idx, e.GetIndex()), "")
			return
		}
		if ptKnown && e.GetTerm() < pt {
			k.report("C03", "log.shape", n, fmt.Sprintf("term decreases at index %d: %d after %d", idx, e.GetTerm(), pt), "")
			return
		}
		same := false
		if idx >= oldFirst && idx-oldFirst < uint64(len(old)) && old[idx-oldFirst] == e {
			same = true
		}
		if !same {
			changed = true
			k.checkEntry(n, st, e, pt, ptKnown)
			if k.c.viol != nil {
				return
			}
		}
		pt, ptKnown = e.GetTerm(), true
	}
	if len(ents) != len(old) || st.FirstIndex != oldFirst {
		changed = true
	}
	x.log, x.logFirst = ents, st.FirstIndex
	x.prevTerm, x.prevOK = prevTerm, prevErr == nil
	if changed {
		x.logGen++
		k.checkTags(n, x)
		if k.c.viol != nil {
			return
		}
	}
	if view {
		k.checkView(n, st, x)
		if k.c.viol == nil && (k.opt.Target == "C18" || k.opt.Target == "C14" || k.opt.Target == "") {
			// in-situ queries on the combined view: only where they are the
			// subject (C18) or where a panic in them counts (C14); see above
			k.checkQueries(n, st, x)
		}
		if k.c.viol == nil && changed {
			k.checkHandedOut(n)
		}
	}
}

// checkQueries is C18 on the query interface of the combined view: term-at
// just outside the range answers ErrCompacted / ErrUnavailable, and a range
// query under a size limit returns exactly the longest non-empty prefix that
// fits. One pseudo-randomly chosen query of each kind per step (the choice is
// a function of the step number and the node, so it replays).
func (k *Checker) checkQueries(n *Node, st *raft.VerifState, x *nodeChk) {
	k.count("lg.query")
	var msg string
	func() {
		defer func() {
			if r := recover(); r != nil {
				msg = fmt.Sprintf("query panicked: %v", r)
			}
		}()
		// term-at outside the range
		if _, err := n.rn.VerifLogTerm(st.LastIndex + 1); err != raft.ErrUnavailable {
			msg = fmt.Sprintf("term(%d) just beyond the last index %d answered %v, want ErrUnavailable", st.LastIndex+1, st.LastIndex, err)
			return
		}
		if st.FirstIndex >= 2 {
			// Below the compaction point the answer is ErrCompacted. (The unstable
			// tail may still hold entries the application has already compacted
			// in Storage, after a storage acknowledgement was ignored because of a
			// term change; answering with the true term of such an entry is not
			// a wrong answer, so it is tolerated when it is the committed term.)
			idx := st.FirstIndex - 2
			t, err := n.rn.VerifLogTerm(idx)
			if err != raft.ErrCompacted {
				g := k.gAt(idx)
				if !(err == nil && g != nil && g.term == t) {
					msg = fmt.Sprintf("term(%d) below the compaction point %d answered (%d, %v), want ErrCompacted", idx, st.FirstIndex-1, t, err)
					return
				}
			}
		}
		if st.FirstIndex >= 2 {
			// a range that starts below the first index answers ErrCompacted (also
			// while an accepted snapshot that raised the first index is not
			// persisted yet)
			if got, err := n.rn.VerifLogSlice(st.FirstIndex-1, st.FirstIndex, ^uint64(0)); err != raft.ErrCompacted {
				msg = fmt.Sprintf("slice[%d,%d) starting below the first index %d answered (%d entries, %v), want ErrCompacted", st.FirstIndex-1, st.FirstIndex, st.FirstIndex, len(got), err)
				return
			}
		}
		if len(x.log) == 0 {
			return
		}
		// one size-limited range query
		h := Mix(uint64(k.c.step), n.id)
		lo := x.logFirst + h%uint64(len(x.log))
		hi := lo + 1 + (h>>16)%(st.LastIndex+1-lo)
		want := x.log[lo-x.logFirst : hi-x.logFirst]
		var limit uint64
		switch (h >> 32) % 5 {
		case 0:
			limit = 0
		case 1:
			limit = ^uint64(0)
		default:
			// around the size of a prefix of random length
			kk := 1 + int((h>>40)%uint64(len(want)))
			limit = raft.VerifEntsSize(want[:kk])
			switch (h >> 48) % 3 {
			case 0:
				limit--
			case 1:
				limit++
			}
		}
		got, err := n.rn.VerifLogSlice(lo, hi, limit)
		if err != nil {
			msg = fmt.Sprintf("slice[%d,%d) limit %d answered %v", lo, hi, limit, err)
			return
		}
		exp := 1
		size := raft.VerifEntsSize(want[:1])
		for exp < len(want) {
			size += raft.VerifEntsSize(want[exp : exp+1])
			if size > limit {
				break
			}
			exp++
		}
		if len(got) != exp {
			msg = fmt.Sprintf("slice[%d,%d) limit %d returned %d entries, the longest non-empty prefix that fits has %d", lo, hi, limit, len(got), exp)
			return
		}
		for i, e := range got {
			if e != want[i] && (e.GetIndex() != want[i].GetIndex() || e.GetTerm() != want[i].GetTerm() || !bytes.Equal(e.GetData(), want[i].GetData())) {
				msg = fmt.Sprintf("slice[%d,%d) limit %d: position %d holds (index=%d, term=%d), want (index=%d, term=%d)", lo, hi, limit, i, e.GetIndex(), e.GetTerm(), want[i].GetIndex(), want[i].GetTerm())
				return
			}
		}
	}()
	if msg != "" {
		k.report("C18", "lg.query", n, msg, "")
	}
}

// entryAt returns the node's cached log entry at index i (nil if absent).
func (x *nodeChk) entryAt(i uint64) *pb.Entry {
	if i < x.logFirst || i-x.logFirst >= uint64(len(x.log)) {
		return nil
	}
	return x.log[i-x.logFirst]
}

// termAt returns the term of the node's log at i, if known.
func (x *nodeChk) termAt(i uint64) (uint64, bool) {
	if e := x.entryAt(i); e != nil {
		return e.GetTerm(), true
	}
	if i+1 == x.logFirst && x.prevOK {
		return x.prevTerm, true
	}
	return 0, false
}

func (x *nodeChk) lastID() (term, index uint64) {
	if len(x.log) > 0 {
		e := x.log[len(x.log)-1]
		return e.GetTerm(), e.GetIndex()
	}
	return x.prevTerm, x.logFirst - 1
}

// lmCheck is C03 log.match: (index, term) determines the entry and the term of
// its predecessor, hence (by induction) the whole prefix.
func (k *Checker) lmCheck(n *Node, where string, e *pb.Entry, prevTerm uint64, prevKnown bool) {
	k.count("log.match")
	key := lmKey{e.GetIndex(), e.GetTerm()}
	h := hashEntry(e)
	v, ok := k.lm[key]
	if !ok {
		k.lm[key] = lmVal{hash: h, prevTerm: prevTerm, prevKnown: prevKnown}
		return
	}
	if v.hash != h {
		k.report("C03", "log.match", n, fmt.Sprintf("%s: entry (index=%d, term=%d) differs from the entry another log holds at the same index and term", where, key.index, key.term), "log.match.entry")
		return
	}
	if prevKnown && v.prevKnown && v.prevTerm != prevTerm {
		k.report("C03", "log.match", n, fmt.Sprintf("%s: entry (index=%d, term=%d) is preceded by term %d here and by term %d in another log", where, key.index, key.term, prevTerm, v.prevTerm), "log.match.prefix")
		return
	}
	if prevKnown && !v.prevKnown {
		v.prevTerm, v.prevKnown = prevTerm, true
		k.lm[key] = v
	}
}

// checkEntry runs on every log position whose entry object changed.
func (k *Checker) checkEntry(n *Node, st *raft.VerifState, e *pb.Entry, prevTerm uint64, prevKnown bool) {
	k.lmCheck(n, "log", e, prevTerm, prevKnown)
	if k.c.viol != nil {
		return
	}
	// C01/C04 sm.never_replaced: an index at or below the node's commit holds
	// the globally committed entry.
	if e.GetIndex() <= st.Committed {
		if g := k.gAt(e.GetIndex()); g != nil {
			k.count("sm.never_replaced")
			if g.term != e.GetTerm() || g.hash != hashEntry(e) {
				k.report2("C01", "sm.never_replaced", "C04", "lc.no_overwrite", n, fmt.Sprintf("log position %d (<= commit %d) holds (term=%d) but the committed entry there has term %d", e.GetIndex(), st.Committed, e.GetTerm(), g.term), "")
				return
			}
		}
	}
	k.checkOrigin(n, st, e)
}

// registerCommitted extends G when a node's commit index covers new indexes.
func (k *Checker) registerCommitted(n *Node, st *raft.VerifState, from, to uint64) {
	x := k.nc[n.id]
	for i := from + 1; i <= to; i++ {
		e := x.entryAt(i)
		if e == nil && k.c.vg != nil && i > k.gMax() {
			// E2: the ground truth is the abstract group's committed sequence
			e = k.c.vg.truthAt(i)
		}
		if e == nil {
			// Covered by a snapshot on this node; must already be known.
			if i > k.gMax() {
				k.report("C06", "cm.gap", n, fmt.Sprintf("commit index moved to %d over index %d which is not in the log and which no node had committed", to, i), "")
				return
			}
			continue
		}
		if i <= k.gBase {
			continue
		}
		if k.c.vg != nil {
			k.c.vg.checkAgainstTruth(k, n, i, e)
			if k.c.viol != nil {
				return
			}
		}
		h := hashEntry(e)
		if g := k.gAt(i); g != nil {
			k.count("sm.commit_agree")
			if g.term != e.GetTerm() || g.hash != h {
				k.report("C01", "sm.commit_agree", n, fmt.Sprintf("commits (index=%d, term=%d) but (index=%d, term=%d) with different content was committed earlier", i, e.GetTerm(), i, g.term), "")
				if !isLeader(st) {
					// C06: a follower's commit index went beyond the prefix on which it matches the leader
					k.report("C06", "cm.follower_match", n, fmt.Sprintf("commit index covers index %d where this node holds term %d but the committed entry has term %d", i, e.GetTerm(), g.term), "")
				}
				return
			}
			continue
		}
		if i != k.gMax()+1 {
			k.report("C06", "cm.gap", n, fmt.Sprintf("commit index moved to %d skipping index %d never committed by anyone", i, k.gMax()+1), "")
			return
		}
		prevChain := k.baseChain
		if len(k.g) > 0 {
			prevChain = k.g[len(k.g)-1].chain
		}
		ge := gEntry{term: e.GetTerm(), typ: e.GetType(), hash: h, commitTerm: st.Term, entry: e, chain: chainHash(prevChain, i, h)}
		k.g = append(k.g, ge)
		if e.GetType() == pb.EntryConfChange || e.GetType() == pb.EntryConfChangeV2 {
			k.foldConf(n, e)
		} else if tag, key, ok := parsePayload(e.GetData()); ok {
			k.lin.onCommit(tag, key, i)
		}
	}
}

// foldConf extends the reference configuration sequence.
func (k *Checker) foldConf(n *Node, e *pb.Entry) {
	cc, _, err := decodeCC(e)
	if err != nil {
		k.report("C20", "pi.cc_decode", n, fmt.Sprintf("committed conf-change entry %d does not decode: %v", e.GetIndex(), err), "")
		return
	}
	cur := k.confAt(e.GetIndex())
	dec, next := appDecide(cur, cc)
	k.confs = append(k.confs, confRec{index: e.GetIndex(), conf: next, dec: dec})
}

// checkView is C18 (system half): the combined view equals the abstract log
// obtained from every write group emitted so far plus the not yet emitted tail.
func (k *Checker) checkView(n *Node, st *raft.VerifState, x *nodeChk) {
	if x.emitted == nil {
		return
	}
	k.count("lg.view")
	m := x.emitted
	// Expected: emitted groups, then the unstable snapshot if not yet emitted,
	// then the unstable entries not yet emitted.
	expFirst, expLast := m.first(), m.last()
	var tail []*pb.Entry
	if st.UnstableSnapshot != nil && !st.UnstableSnapshotInProgress {
		si := st.UnstableSnapshot.GetMetadata().GetIndex()
		expFirst, expLast = si+1, si
	}
	if np := int(st.UnstableOffsetInProgress - st.UnstableOffset); np >= 0 && np < len(st.UnstableEntries) {
		tail = st.UnstableEntries[np:]
	}
	if len(tail) > 0 {
		expLast = tail[len(tail)-1].GetIndex()
	}
	if st.FirstIndex != expFirst || st.LastIndex != expLast {
		k.report("C18", "lg.view", n, fmt.Sprintf("combined view is [%d,%d], the writes handed out so far plus the unstable tail give [%d,%d]", st.FirstIndex, st.LastIndex, expFirst, expLast), "lg.view.bounds")
		return
	}
	var tailFirst uint64
	if len(tail) > 0 {
		tailFirst = tail[0].GetIndex()
	}
	for i, e := range x.log {
		idx := x.logFirst + uint64(i)
		var want *pb.Entry
		if len(tail) > 0 && idx >= tailFirst {
			want = tail[idx-tailFirst]
		} else {
			want = m.entry(idx)
		}
		if want == nil {
			// under C03: the log as stable storage will hold it plus the tail still
			// to be persisted has a hole at this index
			k.report2("C18", "lg.view", "C03", "log.shape", n, fmt.Sprintf("combined view has an entry at %d that no emitted write or unstable tail contains (it will never be persisted: the stored log plus the tail still to be written is not contiguous)", idx), "lg.view.extra")
			return
		}
		if want != e && (want.GetTerm() != e.GetTerm() || want.GetType() != e.GetType() || !bytes.Equal(want.GetData(), e.GetData())) {
			k.report("C18", "lg.view", n, fmt.Sprintf("combined view exposes (index=%d, term=%d) but the latest write for that index is term %d (overwritten entry exposed)", idx, e.GetTerm(), want.GetTerm()), "lg.view.stale")
			return
		}
	}
}

// noteEmitted updates the C18 model with a write group raft handed out.
func (k *Checker) noteEmitted(n *Node, snap *pb.Snapshot, ents []*pb.Entry) {
	x := k.nc[n.id]
	if x.emitted == nil {
		return
	}
	if snap != nil && !raft.IsEmptySnap(snap) {
		// A snapshot replaces the log.
		x.emitted.snap = snap
		x.emitted.baseIndex, x.emitted.baseTerm = snap.GetMetadata().GetIndex(), snap.GetMetadata().GetTerm()
		x.emitted.ents = nil
	}
	if len(ents) > 0 {
		if ents[0].GetIndex() > x.emitted.last()+1 {
			k.report2("C18", "lg.emit_gap", "C03", "log.shape", n, fmt.Sprintf("write group starts at %d but earlier writes end at %d: the stored log would not be contiguous", ents[0].GetIndex(), x.emitted.last()), "")
			return
		}
		x.emitted.append(ents)
	}
}
