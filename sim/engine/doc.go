// Package engine is the deterministic cluster simulator (E1).
package engine
