package engine

import (
	"bytes"
	"fmt"
	"strconv"

	raft "go.etcd.io/raft/v3"
	pb "go.etcd.io/raft/v3/raftpb"
	"google.golang.org/protobuf/proto"
)

// onReady runs the emission monitors: C07 (emitted hard states), C08 (apply
// stream), C11 (read states), C18 (model of emitted writes).
func (k *Checker) onReady(n *Node, rd *raft.Ready) {
	x := k.nc[n.id]
	st := &n.st // state after Ready()
	c := k.c

	var snap *pb.Snapshot
	var ents []*pb.Entry
	var hs *pb.HardState
	var committed []*pb.Entry
	if n.cfg.Async {
		for _, m := range rd.Messages {
			switch m.GetType() {
			case pb.MsgStorageAppend:
				snap, ents, hs = m.GetSnapshot(), m.GetEntries(), hsFromMsg(m)
				if !proto.Equal(snap, rd.Snapshot) && !(snap == nil && raft.IsEmptySnap(rd.Snapshot)) {
					k.report("C19", "dt.async_mirror", n, "MsgStorageAppend snapshot differs from Ready.Snapshot", "")
					return
				}
			case pb.MsgStorageApply:
				committed = m.GetEntries()
			}
		}
	} else {
		snap, ents, hs, committed = rd.Snapshot, rd.Entries, rd.HardState, rd.CommittedEntries
	}

	// ---- C07 emitted hard states are monotone
	if hs != nil && !raft.IsEmptyHardState(hs) {
		k.count("hs.emitted")
		if x.haveEm {
			if hs.GetTerm() < x.emTerm || hs.GetCommit() < x.emCommit ||
				(hs.GetTerm() == x.emTerm && hs.GetVote() != x.emVote && x.emVote != 0) {
				k.report("C07", "hs.emitted", n, fmt.Sprintf("emitted hard state (term=%d vote=%d commit=%d) after (term=%d vote=%d commit=%d)",
					hs.GetTerm(), hs.GetVote(), hs.GetCommit(), x.emTerm, x.emVote, x.emCommit), "")
				return
			}
		} else if hs.GetTerm() < x.restartTerm {
			k.report("C07", "hs.emitted", n, fmt.Sprintf("emitted hard state term %d below the term %d the node restarted with", hs.GetTerm(), x.restartTerm), "")
			return
		}
		x.haveEm, x.emTerm, x.emVote, x.emCommit = true, hs.GetTerm(), hs.GetVote(), hs.GetCommit()
		if hs.GetCommit() > k.reportedCommit {
			k.reportedCommit = hs.GetCommit()
		}
	}

	// ---- C07 hs.exposed: what a node exposes for persistence is its hard
	// state: right after a Ready has been taken, the last exposed hard state
	// (this Ready's, or an earlier one's, or the one the node started with)
	// equals the node's (term, vote, commit).
	if hs != nil && !raft.IsEmptyHardState(hs) {
		x.exTerm, x.exVote, x.exCommit = hs.GetTerm(), hs.GetVote(), hs.GetCommit()
	}
	k.count("hs.exposed")
	if st.Term != x.exTerm || st.Vote != x.exVote || st.Committed != x.exCommit {
		k.report("C07", "hs.exposed", n, fmt.Sprintf("after this Ready the node is at (term=%d vote=%d commit=%d) but the hard state it has exposed for persistence last is (term=%d vote=%d commit=%d)",
			st.Term, st.Vote, st.Committed, x.exTerm, x.exVote, x.exCommit), "")
		return
	}

	// ---- C18: remember exactly what was handed out for writing
	if len(ents) > 0 {
		x.handedOut = append(x.handedOut, handedOut{first: ents[0].GetIndex(), ents: append([]*pb.Entry(nil), ents...), live: ents})
		if len(x.handedOut) > 64 {
			x.handedOut = x.handedOut[len(x.handedOut)-64:]
		}
	}
	// ---- C18 model
	k.noteEmitted(n, snap, ents)
	if c.viol != nil {
		return
	}

	k.checkView(n, st, x)
	if c.viol != nil {
		return
	}

	// ---- C08 apply stream
	if snap != nil && !raft.IsEmptySnap(snap) {
		si := snap.GetMetadata().GetIndex()
		if si+1 > x.nextApply {
			x.nextApply = si + 1
		}
		x.snapOutstanding = true
		c.stats.probe("snapshot_emitted")
		if len(ents) > 0 {
			c.stats.probe("snapshot_and_entries_in_one_group")
		}
	}
	if len(committed) > 0 {
		k.count("ap.cursor")
		if x.snapOutstanding || st.UnstableSnapshot != nil {
			k.report("C08", "ap.no_apply_during_snapshot", n, fmt.Sprintf("committed entries [%d..] handed out while a snapshot install is outstanding", committed[0].GetIndex()), "")
			return
		}
		first := committed[0].GetIndex()
		if first != x.nextApply {
			k.report("C08", "ap.cursor", n, fmt.Sprintf("apply batch starts at %d, expected %d", first, x.nextApply), "ap.cursor.start")
			if first > x.nextApply {
				// C01: a committed entry was dropped from this node's committed sequence
				k.report("C01", "sm.sequence", n, fmt.Sprintf("committed entries %d..%d were never handed to this node: batch starts at %d", x.nextApply, first-1, first), "sm.sequence.skip")
			} else {
				k.report("C01", "sm.sequence", n, fmt.Sprintf("committed sequence handed to this node goes back from %d to %d", x.nextApply-1, first), "sm.sequence.back")
			}
			return
		}
		for i, e := range committed {
			if e.GetIndex() != first+uint64(i) {
				k.report("C08", "ap.cursor", n, fmt.Sprintf("apply batch not contiguous at position %d: index %d", i, e.GetIndex()), "ap.cursor.gap")
				k.report("C01", "sm.sequence", n, fmt.Sprintf("committed sequence handed to this node is not contiguous: index %d at position %d of a batch starting at %d", e.GetIndex(), i, first), "sm.sequence.gap")
				return
			}
			if e.GetIndex() > st.Committed {
				k.report("C08", "ap.cursor", n, fmt.Sprintf("entry %d handed out beyond commit %d", e.GetIndex(), st.Committed), "ap.cursor.beyond_commit")
				return
			}
			// C01 sm.agree
			g := k.gAt(e.GetIndex())
			if g == nil {
				if e.GetIndex() > k.gBase {
					k.report("C08", "ap.cursor", n, fmt.Sprintf("entry %d handed out but no node has committed it", e.GetIndex()), "ap.cursor.uncommitted")
					return
				}
				continue
			}
			k.count("sm.agree")
			if g.term != e.GetTerm() || g.typ != e.GetType() || g.hash != hashEntry(e) {
				k.report("C01", "sm.agree", n, fmt.Sprintf("handed out (index=%d, term=%d) as committed; the entry committed at that index is (term=%d)", e.GetIndex(), e.GetTerm(), g.term), "")
				return
			}
			if n.cfg.Async {
				k.count("ap.durable_only")
				d := n.disk.dur
				de := d.entry(e.GetIndex())
				if (de == nil || de.GetTerm() != e.GetTerm()) && e.GetIndex() > d.snapIndex() {
					k.report("C08", "ap.durable_only", n, fmt.Sprintf("entry %d handed out for application but the durable log ends at %d", e.GetIndex(), d.last()), "")
					return
				}
			}
		}
		last := committed[len(committed)-1].GetIndex()
		x.nextApply = last + 1
		if last > k.reportedCommit {
			k.reportedCommit = last
		}
		if last < st.Committed {
			c.stats.probe("apply_paginated")
		}
		if n.inc > 1 && first <= n.app.maxApplied {
			c.stats.probe("redelivery_after_restart")
		}
		// ap.size
		if mx := st.MaxApplyingEntsSize; mx != ^uint64(0) {
			k.count("ap.size")
			var out uint64
			for _, s := range x.applyOutSizes {
				out += s
			}
			sz := raft.VerifEntsSize(committed)
			if out >= mx {
				k.report("C08", "ap.size", n, fmt.Sprintf("apply batch handed out with %d bytes already outstanding, limit %d", out, mx), "ap.size.paused")
				return
			}
			if len(committed) > 1 && sz > mx-out {
				k.report("C08", "ap.size", n, fmt.Sprintf("apply batch of %d entries and %d bytes exceeds the remaining budget %d", len(committed), sz, mx-out), "ap.size.over")
				return
			}
			x.applyOutSizes = append(x.applyOutSizes, sz)
		}
	}

	// ---- C11 read states
	for _, rs := range rd.ReadStates {
		k.onReadState(n, rs)
		if c.viol != nil {
			return
		}
	}
}

// onApplyAck is called when raft is told that a batch was applied (async).
func (k *Checker) onApplyAck(n *Node) {
	x := k.nc[n.id]
	if len(x.applyOutSizes) > 0 {
		x.applyOutSizes = x.applyOutSizes[1:]
	}
}

// onNetSend runs when the application hands a message to the network: C05
// promises, C02 votes, C07 no lower term.
func (k *Checker) onNetSend(n *Node, m *pb.Message) {
	x := k.nc[n.id]
	if m.GetTo() == n.id {
		k.report("C14", "self_addressed", n, fmt.Sprintf("%s addressed to the sender itself reached the network", m.GetType()), "")
		return
	}
	if t := m.GetTerm(); t != 0 && t < x.restartTerm {
		k.report("C07", "hs.no_lower_term", n, fmt.Sprintf("sent %s with term %d below the term %d it restarted with", m.GetType(), t, x.restartTerm), "")
		return
	}
	k.checkPromise(n, m, "network")
}

// onLocalResp runs when a response is delivered back to the local node (the
// self vote and the leader's self append ack are promises too).
func (k *Checker) onLocalResp(n *Node, m *pb.Message) {
	if m.GetType() == pb.MsgStorageApplyResp {
		k.onApplyAck(n)
		return
	}
	if m.GetType() == pb.MsgStorageAppendResp {
		x := k.nc[n.id]
		if m.GetSnapshot() != nil {
			x.snapOutstanding = false
		}
		return
	}
	k.checkPromise(n, m, "local")
}

func (k *Checker) checkPromise(n *Node, m *pb.Message, how string) {
	x := k.nc[n.id]
	d := n.disk.dur
	switch m.GetType() {
	case pb.MsgVoteResp:
		if m.GetReject() {
			return
		}
		t := m.GetTerm()
		cand := m.GetTo()
		k.count("dur.promise.vote")
		if !(d.hs.GetTerm() > t || (d.hs.GetTerm() == t && d.hs.GetVote() == cand)) {
			k.report("C05", "dur.promise.vote", n, fmt.Sprintf("vote for %d in term %d became visible (%s) while the durable hard state is (term=%d, vote=%d)", cand, t, how, d.hs.GetTerm(), d.hs.GetVote()), "")
			return
		}
		vk := voteKey{n.id, t}
		if prev, ok := k.sentVotes[vk]; ok && prev != cand {
			k.report("C02", "el.one_vote", n, fmt.Sprintf("granted its vote in term %d to %d and to %d", t, prev, cand), "")
			return
		}
		k.sentVotes[vk] = cand
		if t > x.maxSentVoteTerm {
			x.maxSentVoteTerm, x.maxSentVoteCand = t, cand
		}
		if cand == n.id {
			x.selfVoteTerm = t
		}
	case pb.MsgPreVoteResp:
		if m.GetReject() {
			return
		}
		vk := voteKey{m.GetTo(), m.GetTerm()}
		if k.preVotes[vk] == nil {
			k.preVotes[vk] = map[uint64]bool{}
		}
		k.preVotes[vk][n.id] = true
	case pb.MsgAppResp:
		if m.GetReject() || m.GetIndex() == 0 {
			return
		}
		k.count("dur.promise.append")
		i := m.GetIndex()
		if !(d.covers(i) || d.hs.GetTerm() > m.GetTerm()) {
			k.report("C05", "dur.promise.append", n, fmt.Sprintf("acknowledgement of index %d (term %d) became visible (%s) while the durable log ends at %d (snapshot %d, durable term %d)", i, m.GetTerm(), how, d.last(), d.snapIndex(), d.hs.GetTerm()), "")
			return
		}
	}
}

// onWrite runs after every completed write group / crash: C03 on the durable
// image, C07 on the durable hard state, C18 page vs model.
func (k *Checker) onWrite(n *Node) {
	x := k.nc[n.id]
	d := n.disk.dur
	k.count("hs.durable_monotone")
	if d.hs != nil {
		if d.hs.GetTerm() < x.durTerm || d.hs.GetCommit() < x.durCommit || (d.hs.GetTerm() == x.durTerm && x.durVote != 0 && d.hs.GetVote() != x.durVote) {
			k.report("C07", "hs.durable_monotone", n, fmt.Sprintf("durable hard state went from (term=%d vote=%d commit=%d) to (term=%d vote=%d commit=%d)", x.durTerm, x.durVote, x.durCommit, d.hs.GetTerm(), d.hs.GetVote(), d.hs.GetCommit()), "")
			return
		}
		x.durTerm, x.durVote, x.durCommit = d.hs.GetTerm(), d.hs.GetVote(), d.hs.GetCommit()
	}
	if s := n.disk.comparePage(); s != "" {
		k.count("lg.page")
		k.report("C18", "lg.page", n, "in-memory storage differs from the abstract log of completed writes: "+s, "")
		return
	}
	// C03 on the durable image (only the tail that may have changed is cheap to
	// identify by pointer, so check the last few entries and rely on the table).
	pt, ok := d.baseTerm, true
	for i, e := range d.ents {
		if e.GetIndex() != d.baseIndex+1+uint64(i) || e.GetTerm() < pt {
			k.report("C03", "log.durable_shape", n, fmt.Sprintf("durable log broken at position %d: (index=%d, term=%d) after term %d", d.baseIndex+1+uint64(i), e.GetIndex(), e.GetTerm(), pt), "")
			return
		}
		if i >= len(d.ents)-4 {
			k.lmCheck(n, "durable", e, pt, ok)
			if k.c.viol != nil {
				return
			}
		}
		pt = e.GetTerm()
	}
}

// onCompacted keeps the C18 model in step with the application's compaction.
func (k *Checker) onCompacted(n *Node) {
	x := k.nc[n.id]
	if x.emitted == nil {
		return
	}
	w := n.disk.written
	if w.baseIndex > x.emitted.baseIndex && w.baseIndex <= x.emitted.last() {
		x.emitted.compact(w.baseIndex)
	}
	if w.snapIndex() > x.emitted.snapIndex() {
		x.emitted.snap = w.snap
	}
}

func (k *Checker) onAppRestore(n *Node, snap *pb.Snapshot) {
	k.checkAppChain(n)
}

// onApplied runs after the application applied one entry.
func (k *Checker) onApplied(n *Node, e *pb.Entry) {
	k.checkAppChain(n)
	if k.c.viol != nil {
		return
	}
	if e.GetType() == pb.EntryNormal {
		if tag, key, ok := parsePayload(e.GetData()); ok {
			k.lin.onApplied(n.id, tag, key, k.c.step)
		}
	}
	k.lin.onAppliedIndex(n, k.c.step)
}

// checkAppChain is the C01 end-to-end check, done incrementally: all state
// machines that reach index i have the same hash chain value.
func (k *Checker) checkAppChain(n *Node) {
	k.count("sm.chain")
	cur := n.app.cur
	if v, ok := k.appChain[cur.Index]; ok {
		if v != cur.Chain {
			k.report("C01", "sm.chain", n, fmt.Sprintf("state machine at index %d differs from another node's state machine at the same index", cur.Index), "")
		}
		return
	}
	k.appChain[cur.Index] = cur.Chain
}

// onApplyConf is C10 mc.fold at the point of ApplyConfChange.
func (k *Checker) onApplyConf(n *Node, e *pb.Entry, dec ccDecision, cs *pb.ConfState) {
	idx := e.GetIndex()
	if idx <= k.nBoot && k.c.rc.Bootstrap {
		return
	}
	if idx > k.gMax() {
		return // reported elsewhere (entry applied beyond commit)
	}
	// C09 sn.base_kept: once a snapshot is the node's log base the node has the
	// snapshot's membership; a configuration change from before the snapshot
	// that the application was still holding must not be applied on top of it.
	if x := k.nc[n.id]; x.snapBaseIdx >= idx && x.snapBaseConf != nil && dec != ccSkip {
		k.count("sn.base_kept")
		if got := refConfFromConfState(cs); !got.Equal(x.snapBaseConf) {
			k.report2("C10", "mc.fold", "C09", "sn.install", n, fmt.Sprintf("ApplyConfChange for index %d ran after the snapshot at index %d had become the log base: membership is now %s, the snapshot says %s", idx, x.snapBaseIdx, got, x.snapBaseConf), "mc.fold.after_snapshot")
			return
		}
	}
	k.count("mc.fold")
	var rec *confRec
	for j := range k.confs {
		if k.confs[j].index == idx {
			rec = &k.confs[j]
		}
	}
	if rec == nil {
		k.report("C10", "mc.fold", n, fmt.Sprintf("applied conf change at index %d which is not a conf change in the committed sequence", idx), "mc.fold.unknown")
		return
	}
	if rec.dec != dec {
		k.report("C10", "mc.fold", n, fmt.Sprintf("conf change at %d: this node's state machine decided %d, the committed sequence implies %d", idx, dec, rec.dec), "mc.fold.decision")
		return
	}
	if dec == ccSkip {
		return
	}
	got := refConfFromConfState(cs)
	if !rec.conf.Equal(got) {
		k.report("C10", "mc.fold", n, fmt.Sprintf("ApplyConfChange at index %d returned %s, folding the committed changes gives %s", idx, got, rec.conf), "mc.fold.apply")
		return
	}
	st := &n.st
	k.checkConfAgainstRef(n, st, idx, "apply")
	if rec.conf.Joint() {
		k.c.stats.probe("joint_config_entered")
	}
}

// checkConfAppend: C10 mc.one_pending / mc.autoleave_origin on entries a leader
// adds to its own log.
func (k *Checker) checkConfAppend(n *Node, pre, post *raft.VerifState, ctx *callCtx) {
	if !isLeader(post) || post.LastIndex <= pre.LastIndex || !isLeader(pre) || pre.Term != post.Term {
		return
	}
	x := k.nc[n.id]
	for i := pre.LastIndex + 1; i <= post.LastIndex; i++ {
		e := x.entryAt(i)
		if e == nil || e.GetTerm() != post.Term {
			continue
		}
		if e.GetType() != pb.EntryConfChange && e.GetType() != pb.EntryConfChangeV2 {
			continue
		}
		if len(e.GetData()) == 0 {
			k.count("mc.autoleave_origin")
			k.c.stats.probe("auto_leave_proposed")
			if !(post.AutoLeave && len(post.VotersOutgoing) > 0) {
				k.report("C10", "mc.autoleave_origin", n, fmt.Sprintf("automatic leave-joint entry at %d but the leader's configuration is not an auto-leave joint configuration", i), "")
				return
			}
		}
		if n.cfg.DisableConfChangeValidation {
			continue
		}
		k.count("mc.one_pending")
		for j := x.logFirst; j < i; j++ {
			o := x.entryAt(j)
			if o == nil || (o.GetType() != pb.EntryConfChange && o.GetType() != pb.EntryConfChangeV2) {
				continue
			}
			// "may still be unapplied": judged by what the application has really
			// applied (its state machine's index), which is never behind what raft
			// has been told (a seeded change made raft believe more than that)
			if appApplied := n.app.cur.Index; j > appApplied {
				k.report("C10", "mc.one_pending", n, fmt.Sprintf("leader placed a conf change at %d while the conf change at %d is unapplied (the application has applied up to %d, raft says %d)", i, j, appApplied, post.Applied), "")
				return
			}
			if j > pre.Applied && j > post.Applied {
				k.report("C10", "mc.one_pending", n, fmt.Sprintf("leader placed a conf change at %d while the conf change at %d is unapplied (applied %d)", i, j, post.Applied), "")
				return
			}
		}
	}
}

// ---------------------------------------------------------------------------
// C11

func (k *Checker) safeReads() bool {
	for _, nc := range k.c.rc.Nodes {
		if nc.LeaseBased {
			return false
		}
	}
	return true
}

func (k *Checker) onReadIssue(n *Node, ctx int) {
	x := k.nc[n.id]
	key := "r" + strconv.Itoa(ctx)
	if _, ok := x.issued[key]; !ok {
		x.issued[key] = k.reportedCommit
	}
	k.lin.onReadIssue(n.id, ctx, k.c.step)
	// a read issued at a leader is received by it in the same step
	if isLeader(&n.st) {
		if _, ok := x.readRecv[key]; !ok {
			x.readRecv[key] = k.c.step
		}
	}
}

func (k *Checker) onReadState(n *Node, rs raft.ReadState) {
	x := k.nc[n.id]
	k.count("ri.ctx")
	key := string(rs.RequestCtx)
	at, ok := x.issued[key]
	if !ok {
		k.report("C11", "ri.ctx", n, fmt.Sprintf("read state with context %q that was never issued at this node", key), "")
		return
	}
	if !k.safeReads() {
		return
	}
	k.count("ri.index")
	if rs.Index < at {
		k.report("C11", "ri.index", n, fmt.Sprintf("read state %q has index %d, but commit index %d had been reported when the read was issued", key, rs.Index, at), "")
		return
	}
	if ctx, err := strconv.Atoi(key[1:]); err == nil {
		k.lin.onReadState(n, ctx, rs.Index, k.c.step)
	}
}

// checkReadProducer is C11 ri.producer.
func (k *Checker) checkReadProducer(n *Node, pre, post *raft.VerifState, ctx *callCtx) {
	x := k.nc[n.id]
	m := ctx.msg
	if m != nil && ctx.what == "Step" && isLeader(post) {
		switch m.GetType() {
		case pb.MsgReadIndex:
			if len(m.GetEntries()) == 1 {
				key := string(m.GetEntries()[0].GetData())
				if _, ok := x.readRecv[key]; !ok {
					x.readRecv[key] = k.c.step
				}
				if m.GetFrom() != 0 && m.GetFrom() != n.id {
					k.c.stats.probe("read_forwarded_to_leader")
				}
			}
		case pb.MsgHeartbeatResp:
			x.hbResp[m.GetFrom()] = k.c.step
		}
	}
	if ctx.what == "Ready" || !k.safeReads() {
		return
	}
	// answers produced in this step
	var answered []string
	if len(post.ReadStates) > len(pre.ReadStates) && !(m != nil && m.GetType() == pb.MsgReadIndexResp) {
		for _, rs := range post.ReadStates[len(pre.ReadStates):] {
			answered = append(answered, string(rs.RequestCtx))
		}
	}
	for _, r := range post.Msgs[min(len(pre.Msgs), len(post.Msgs)):] {
		if r.GetType() == pb.MsgReadIndexResp && len(r.GetEntries()) == 1 {
			answered = append(answered, string(r.GetEntries()[0].GetData()))
		}
	}
	if len(answered) == 0 {
		return
	}
	k.count("ri.producer")
	if !isLeader(pre) && !isLeader(post) {
		k.report("C11", "ri.producer", n, "a read was answered by a node that is not leader", "ri.producer.role")
		return
	}
	lead := post
	if !isLeader(post) {
		lead = pre
	}
	ct, ok := x.termAt(lead.Committed)
	if ok && ct != lead.Term {
		k.report("C11", "ri.producer", n, fmt.Sprintf("leader of term %d answered a read while its commit index %d holds an entry of term %d (no entry of its own term committed yet)", lead.Term, lead.Committed, ct), "ri.producer.term")
		return
	}
	if pre.PendingReadIndex > post.PendingReadIndex {
		k.c.stats.probe("postponed_read_released")
	}
	sole := len(lead.Voters) == 1 && len(lead.VotersOutgoing) == 0
	if sole {
		return
	}
	if len(lead.VotersOutgoing) > 0 {
		k.c.stats.probe("read_in_joint_config")
	}
	for _, key := range answered {
		recv, ok := x.readRecv[key]
		if !ok {
			continue
		}
		heard := func(id uint64) bool {
			if id == n.id {
				return true
			}
			s, ok := x.hbResp[id]
			return ok && s > recv
		}
		if !jointMaj(lead.Voters, lead.VotersOutgoing, heard) {
			msg := fmt.Sprintf("read %q answered without hearing from a quorum after receiving it at step %d (heartbeat responses at %v; voters %v, outgoing %v)", key, recv, x.hbResp, lead.Voters, lead.VotersOutgoing)
			if len(lead.VotersOutgoing) > 0 {
				k.report2("C11", "ri.producer", "C10", "mc.joint_quorums", n, msg, "ri.producer.quorum")
			} else {
				k.report("C11", "ri.producer", n, msg, "ri.producer.quorum")
			}
			return
		}
	}
}

// ---------------------------------------------------------------------------
// C20

func (k *Checker) onProposeCall(n *Node, tags []int, ents []*pb.Entry) {
	for i, t := range tags {
		if _, ok := k.proposed[t]; !ok {
			k.proposed[t] = append([]byte(nil), ents[i].GetData()...)
		}
		p := k.propState[t]
		if p == nil {
			p = &propRec{}
			k.propState[t] = p
			if len(tags) > 1 {
				p.batch = tags
			}
		}
		p.calls++
		if isLeader(&n.st) {
			p.deliveries++
		}
	}
	k.lin.onWriteInvoke(n.id, tags, k.c.step, k.c.rc.NKeys)
}

func (k *Checker) onProposeReturn(n *Node, tags []int, err error) {
	x := k.nc[n.id]
	for _, t := range tags {
		p := k.propState[t]
		if err == errIndeterminate {
			// E3: the Node did not tell the caller whether raft accepted the
			// proposal; nothing can be concluded from this call
			p.unknown++
			continue
		}
		if err != nil {
			p.dropped++
			k.lin.onWriteDropped(t)
			continue
		}
		if isLeader(&n.st) && p.calls == 1 && p.deliveries == 1 {
			// proposed at the leader itself and accepted: exactly once in its log
			k.count("pi.exactly_once")
			if x.tagCount[t] != 1 {
				k.report("C20", "pi.exactly_once", n, fmt.Sprintf("proposal %d accepted at the leader appears %d times in its log", t, x.tagCount[t]), "")
				return
			}
		}
	}
}

func (k *Checker) onConfProposeCall(n *Node, ctx int, cc pb.ConfChangeI) {
	typ, data, err := pb.MarshalConfChange(cc)
	if err != nil {
		k.toolError("marshal conf change: " + err.Error())
		return
	}
	key := "c" + strconv.Itoa(ctx)
	k.ccProposed[key] = data
	k.ccType[key] = typ
	if isLeader(&n.st) {
		k.neutralBudget[n.st.Term]++
	}
}

// onConfProposeReturn: a configuration-change proposal whose call returned an
// error (ErrProposalDropped) must not produce an entry (C20 pi.dropped). Every
// context is proposed by exactly one call.
func (k *Checker) onConfProposeReturn(n *Node, ctx int, err error) {
	if err == nil || err == errIndeterminate {
		return
	}
	k.ccDropped["c"+strconv.Itoa(ctx)] = true
}

// noteDeliveredProp counts deliveries of forwarded proposals to a leader.
func (k *Checker) noteDeliveredProp(n *Node, pre *raft.VerifState, m *pb.Message) {
	if !isLeader(pre) {
		return
	}
	for _, e := range m.GetEntries() {
		switch e.GetType() {
		case pb.EntryNormal:
			if tag, _, ok := parsePayload(e.GetData()); ok {
				if p := k.propState[tag]; p != nil {
					p.deliveries++
				}
			}
		default:
			k.neutralBudget[pre.Term]++
		}
	}
}

func ccContext(e *pb.Entry) (string, bool) {
	cc, _, err := decodeCC(e)
	if err != nil {
		return "", false
	}
	if e.GetType() == pb.EntryConfChange {
		c1 := &pb.ConfChange{}
		if proto.Unmarshal(e.GetData(), c1) == nil {
			return string(c1.GetContext()), true
		}
	}
	return string(cc.GetContext()), true
}

// checkOrigin is C20 pi.origin / pi.dropped / pi.own for one log entry.
func (k *Checker) checkOrigin(n *Node, st *raft.VerifState, e *pb.Entry) {
	k.count("pi.origin")
	switch e.GetType() {
	case pb.EntryNormal:
		if len(e.GetData()) == 0 {
			// raft's own: one per leadership plus neutralised conf changes
			t := e.GetTerm()
			if k.emptyByTerm[t] == nil {
				k.emptyByTerm[t] = map[uint64]bool{}
			}
			k.emptyByTerm[t][e.GetIndex()] = true
			if len(k.emptyByTerm[t]) > 1+k.neutralBudget[t] {
				k.report("C20", "pi.own", n, fmt.Sprintf("%d empty entries of term %d exist but only one leadership entry plus %d neutralised conf changes can explain them", len(k.emptyByTerm[t]), t, k.neutralBudget[t]), "")
			}
			return
		}
		tag, _, ok := parsePayload(e.GetData())
		if !ok {
			k.report("C20", "pi.origin", n, fmt.Sprintf("entry %d carries a payload no client proposed", e.GetIndex()), "pi.origin.unknown")
			return
		}
		want, ok := k.proposed[tag]
		if !ok || !bytes.Equal(want, e.GetData()) {
			k.report("C20", "pi.origin", n, fmt.Sprintf("entry %d (tag %d) does not equal the proposed payload bit for bit", e.GetIndex(), tag), "pi.origin.bytes")
			return
		}
		p := k.propState[tag]
		if p.calls > 0 && p.dropped == p.calls {
			k.report("C20", "pi.dropped", n, fmt.Sprintf("proposal %d was reported dropped but entry %d carries it", tag, e.GetIndex()), "")
			return
		}
	case pb.EntryConfChange, pb.EntryConfChangeV2:
		if k.c.rc.Bootstrap && e.GetIndex() <= k.nBoot && e.GetTerm() == 1 {
			return
		}
		if len(e.GetData()) == 0 {
			return // automatic leave-joint (C10 mc.autoleave_origin)
		}
		cx, ok := ccContext(e)
		if !ok {
			k.report("C20", "pi.origin", n, fmt.Sprintf("conf-change entry %d does not decode", e.GetIndex()), "pi.origin.cc_decode")
			return
		}
		if k.ccDropped[cx] {
			k.report("C20", "pi.dropped", n, fmt.Sprintf("configuration change %q was reported dropped but entry %d carries it", cx, e.GetIndex()), "pi.dropped.cc")
			return
		}
		want, ok := k.ccProposed[cx]
		if !ok || !bytes.Equal(want, e.GetData()) || k.ccType[cx] != e.GetType() {
			k.report("C20", "pi.origin", n, fmt.Sprintf("conf-change entry %d (context %q) is not a proposed change", e.GetIndex(), cx), "pi.origin.cc")
			return
		}
	}
}

// checkTags is C20 pi.dup / pi.order over one node's whole log.
func (k *Checker) checkTags(n *Node, x *nodeChk) {
	k.count("pi.dup")
	cnt := map[int]int{}
	for _, e := range x.log {
		if e.GetType() != pb.EntryNormal || len(e.GetData()) == 0 {
			continue
		}
		tag, _, ok := parsePayload(e.GetData())
		if !ok {
			continue
		}
		cnt[tag]++
		p := k.propState[tag]
		if p != nil && cnt[tag] > p.deliveries && cnt[tag] > 1 {
			k.report("C20", "pi.dup", n, fmt.Sprintf("proposal %d appears %d times in one log but reached a leader %d times", tag, cnt[tag], p.deliveries), "")
			return
		}
	}
	x.tagCount = cnt
	// pi.order: the entries of one batch are adjacent, in order, same term
	for i, e0 := range x.log {
		if e0.GetType() != pb.EntryNormal || len(e0.GetData()) == 0 {
			continue
		}
		tag, _, ok := parsePayload(e0.GetData())
		if !ok {
			continue
		}
		p := k.propState[tag]
		if p == nil || len(p.batch) < 2 || p.batch[0] != tag || cnt[tag] != 1 {
			continue
		}
		for j := 1; j < len(p.batch); j++ {
			if i+j >= len(x.log) {
				break // the rest of the batch may not have reached this log yet
			}
			e := x.log[i+j]
			if e.GetTerm() != e0.GetTerm() {
				break
			}
			t2, _, ok := parsePayload(e.GetData())
			if !ok || t2 != p.batch[j] {
				k.report("C20", "pi.order", n, fmt.Sprintf("batch %v: entry after tag %d at index %d is not tag %d", p.batch, p.batch[j-1], e.GetIndex(), p.batch[j]), "")
				return
			}
		}
	}
}

// checkHandedOut is C18 lg.handed_out: a write group that raft has handed to
// the application is not changed afterwards (the application may execute it
// any time later; the slices alias raft's memory).
func (k *Checker) checkHandedOut(n *Node) {
	x := k.nc[n.id]
	for _, h := range x.handedOut {
		k.count("lg.handed_out")
		for i, e := range h.ents {
			if i >= len(h.live) || h.live[i] != e {
				if i < len(h.live) && h.live[i].GetIndex() == e.GetIndex() && h.live[i].GetTerm() == e.GetTerm() {
					continue
				}
				k.report("C18", "lg.handed_out", n, fmt.Sprintf("a write group handed out earlier (entries from %d) was modified afterwards at position %d: (index=%d, term=%d) was handed out", h.first, i, e.GetIndex(), e.GetTerm()), "")
				return
			}
		}
	}
}
