package engine

import (
	"fmt"

	raft "go.etcd.io/raft/v3"
	pb "go.etcd.io/raft/v3/raftpb"
	"google.golang.org/protobuf/proto"
)

// diskOp is one journalled write.
type diskOpKind uint8

const (
	opHardState diskOpKind = iota
	opAppend
	opApplySnap
	opCreateSnap
	opCompact
)

type diskOp struct {
	kind diskOpKind
	hs   *pb.HardState
	ents []*pb.Entry
	snap *pb.Snapshot
	idx  uint64
}

// storageView is what raft reads: the page cache (a real MemoryStorage) with
// two application-level behaviours layered on top: the ConfState reported by
// InitialState (membership as of Config.Applied, assumption A6) and the
// documented ErrSnapshotTemporarilyUnavailable answer.
type storageView struct {
	*raft.MemoryStorage
	confOverride *pb.ConfState
	snapFaults   int
	faultsFired  *int
}

func (s *storageView) InitialState() (*pb.HardState, *pb.ConfState, error) {
	hs, cs, err := s.MemoryStorage.InitialState()
	if s.confOverride != nil {
		cs = s.confOverride
	}
	if hs == nil {
		hs = &pb.HardState{}
	}
	return hs, cs, err
}

func (s *storageView) Snapshot() (*pb.Snapshot, error) {
	if s.snapFaults > 0 {
		s.snapFaults--
		if s.faultsFired != nil {
			*s.faultsFired++
		}
		return nil, raft.ErrSnapshotTemporarilyUnavailable
	}
	return s.MemoryStorage.Snapshot()
}

// Disk is one node's storage: page cache (what raft reads), the durable image
// and the journal of writes not yet covered by a sync barrier.
type Disk struct {
	view    *storageView
	page    *raft.MemoryStorage
	written *absLog // abstract image of everything written so far (== page)
	dur     *absLog // what survives a crash
	journal []diskOp

	syncs, writes int
}

func newDisk() *Disk {
	d := &Disk{written: newAbsLog(), dur: newAbsLog()}
	d.resetPage()
	return d
}

func (d *Disk) resetPage() {
	d.page = raft.NewMemoryStorage()
	d.view = &storageView{MemoryStorage: d.page}
}

func applyOp(l *absLog, op diskOp) {
	switch op.kind {
	case opHardState:
		l.hs = op.hs
	case opAppend:
		l.append(op.ents)
	case opApplySnap:
		l.applySnapshot(op.snap)
	case opCreateSnap:
		l.createSnapshot(op.snap)
	case opCompact:
		l.compact(op.idx)
	}
}

func (d *Disk) record(op diskOp) {
	d.journal = append(d.journal, op)
	applyOp(d.written, op)
	d.writes++
}

func cloneHS(hs *pb.HardState) *pb.HardState {
	return &pb.HardState{Term: new(hs.GetTerm()), Vote: new(hs.GetVote()), Commit: new(hs.GetCommit())}
}

func (d *Disk) SetHardState(hs *pb.HardState) error {
	c := cloneHS(hs)
	if err := d.page.SetHardState(c); err != nil {
		return err
	}
	d.record(diskOp{kind: opHardState, hs: c})
	return nil
}

func (d *Disk) Append(ents []*pb.Entry) error {
	if len(ents) == 0 {
		return nil
	}
	if err := d.page.Append(ents); err != nil {
		return err
	}
	d.record(diskOp{kind: opAppend, ents: ents})
	return nil
}

func (d *Disk) ApplySnapshot(s *pb.Snapshot) error {
	if err := d.page.ApplySnapshot(s); err != nil {
		return err
	}
	d.record(diskOp{kind: opApplySnap, snap: s})
	return nil
}

// CreateSnapshot and Compact are the application's log maintenance.
func (d *Disk) CreateSnapshot(i uint64, cs *pb.ConfState, data []byte) (*pb.Snapshot, error) {
	s, err := d.page.CreateSnapshot(i, cs, data)
	if err != nil {
		return nil, err
	}
	d.record(diskOp{kind: opCreateSnap, snap: s})
	return s, nil
}

func (d *Disk) Compact(i uint64) error {
	if err := d.page.Compact(i); err != nil {
		return err
	}
	d.record(diskOp{kind: opCompact, idx: i})
	return nil
}

// Sync is the barrier: everything written so far becomes durable.
func (d *Disk) Sync() {
	for _, op := range d.journal {
		applyOp(d.dur, op)
	}
	d.journal = d.journal[:0]
	d.syncs++
}

// Unsynced is the number of journalled ops not yet durable.
func (d *Disk) Unsynced() int { return len(d.journal) }

// Crash keeps the first keep unsynced ops (keep<0: all); if the op right after
// them is an append, its first torn entries survive as well. It returns the
// number of ops that were lost. The page cache is rebuilt from the durable
// image.
func (d *Disk) Crash(keep, torn int) (lost int, tornApplied bool) {
	if keep < 0 || keep > len(d.journal) {
		keep = len(d.journal)
	}
	for _, op := range d.journal[:keep] {
		applyOp(d.dur, op)
	}
	if keep < len(d.journal) {
		op := d.journal[keep]
		if op.kind == opAppend && torn > 0 && torn < len(op.ents) {
			applyOp(d.dur, diskOp{kind: opAppend, ents: op.ents[:torn]})
			tornApplied = true
		}
	}
	lost = len(d.journal) - keep
	d.journal = nil
	d.written = d.dur.clone()
	d.rebuildPage()
	return lost, tornApplied
}

// rebuildPage reconstructs a MemoryStorage that holds exactly the durable image.
func (d *Disk) rebuildPage() {
	old := d.view
	d.resetPage()
	if old != nil {
		d.view.faultsFired = old.faultsFired
	}
	l := d.dur
	snap := l.snap
	if snap != nil && snap.GetMetadata().GetIndex() > 0 {
		if l.baseIndex < snap.GetMetadata().GetIndex() {
			// Compaction point below the snapshot index: seed the storage at the
			// compaction point, append, then record the snapshot.
			if l.baseIndex > 0 {
				seed := &pb.Snapshot{Metadata: &pb.SnapshotMetadata{
					Index: new(l.baseIndex), Term: new(l.baseTerm),
					ConfState: snap.GetMetadata().GetConfState(),
				}}
				must(d.page.ApplySnapshot(seed))
			}
			must(d.page.Append(l.ents))
			_, err := d.page.CreateSnapshot(snap.GetMetadata().GetIndex(), snap.GetMetadata().GetConfState(), snap.GetData())
			must(err)
		} else {
			must(d.page.ApplySnapshot(proto.Clone(snap).(*pb.Snapshot)))
			must(d.page.Append(l.ents))
		}
	} else {
		must(d.page.Append(l.ents))
	}
	if l.hs != nil {
		must(d.page.SetHardState(cloneHS(l.hs)))
	}
}

func must(err error) {
	if err != nil {
		panic(fmt.Sprintf("simdisk: %v", err))
	}
}

// comparePage checks that the page cache equals the abstract image of all
// completed writes (C18, system half). Returns "" when equal.
func (d *Disk) comparePage() string {
	l := d.written
	fi, _ := d.page.FirstIndex()
	li, _ := d.page.LastIndex()
	if fi != l.first() || li != l.last() {
		return fmt.Sprintf("page [first=%d last=%d] != model [first=%d last=%d]", fi, li, l.first(), l.last())
	}
	if t, err := d.page.Term(l.baseIndex); err != nil || t != l.baseTerm {
		return fmt.Sprintf("page term(%d)=%d,%v != model %d", l.baseIndex, t, err, l.baseTerm)
	}
	if li >= fi {
		ents, err := d.page.Entries(fi, li+1, ^uint64(0))
		if err != nil {
			return fmt.Sprintf("page entries[%d,%d): %v", fi, li+1, err)
		}
		if len(ents) != len(l.ents) {
			return fmt.Sprintf("page has %d entries, model %d", len(ents), len(l.ents))
		}
		for i := range ents {
			if ents[i] != l.ents[i] && !proto.Equal(ents[i], l.ents[i]) {
				return fmt.Sprintf("page entry %d = %v, model %v", fi+uint64(i), ents[i], l.ents[i])
			}
		}
	}
	ps, _ := d.page.Snapshot()
	if ps.GetMetadata().GetIndex() != l.snapIndex() {
		return fmt.Sprintf("page snapshot index %d != model %d", ps.GetMetadata().GetIndex(), l.snapIndex())
	}
	return ""
}
