package engine

import (
	"fmt"
	"sort"
	"time"

	"github.com/anishathalye/porcupine"
)

// linRecorder records the client-visible history on the register file:
// writes (a proposal, acknowledged when the proposing node's state machine
// applies it) and reads (ReadIndex, wait until applied >= index, read local
// state). It is checked with porcupine at the end of the run.
type linRecorder struct {
	nkeys  int
	writes map[int]*linOp // by tag
	reads  map[uint64]map[int]*linOp
	// waiting reads per node: have a read index, waiting for applied >= index
	waiting map[uint64][]*linOp
	done    []*linOp
	commit  map[int]uint64 // tag -> first committed index
	// issues counts how often a read context was issued (at any node); a
	// context that the client re-used is not part of the history: an answer
	// to an earlier use of it (delayed in the network, possibly across a
	// restart of the node) is indistinguishable from an answer to the later one
	issues map[int]int
}

type linOp struct {
	node     uint64
	write    bool
	key      int
	val      int // write: tag; read: value observed
	call     int
	ret      int // -1 = pending
	rindex   uint64
	ctx      int
	dead     bool
	hasIndex bool
}

func newLinRecorder(nkeys int) *linRecorder {
	return &linRecorder{nkeys: nkeys, writes: map[int]*linOp{}, reads: map[uint64]map[int]*linOp{}, waiting: map[uint64][]*linOp{}, commit: map[int]uint64{}, issues: map[int]int{}}
}

func (l *linRecorder) onWriteInvoke(node uint64, tags []int, step, nkeys int) {
	for _, t := range tags {
		if _, ok := l.writes[t]; ok {
			continue
		}
		key := 0
		if nkeys > 0 {
			key = t % nkeys
		}
		l.writes[t] = &linOp{node: node, write: true, key: key, val: t, call: step, ret: -1}
	}
}

func (l *linRecorder) onWriteDropped(tag int) {
	if op := l.writes[tag]; op != nil {
		op.dead = true
	}
}

func (l *linRecorder) onCommit(tag, key int, index uint64) {
	if _, ok := l.commit[tag]; !ok {
		l.commit[tag] = index
	}
}

// onApplied: the write is acknowledged to its client when the proposing node
// applies it (same incarnation; a crash abandons the client).
func (l *linRecorder) onApplied(node uint64, tag, key, step int) {
	op := l.writes[tag]
	if op == nil || op.node != node || op.ret >= 0 || op.dead {
		return
	}
	op.ret = step
}

func (l *linRecorder) onCrash(node uint64) {
	for _, op := range l.writes {
		if op.node == node && op.ret < 0 {
			op.node = 0 // nobody will acknowledge it any more
		}
	}
	delete(l.reads, node)
	delete(l.waiting, node)
}

func (l *linRecorder) onReadIssue(node uint64, ctx, step int) {
	l.issues[ctx]++
	if l.issues[ctx] > 1 {
		// re-used context: withdraw whatever was recorded under it
		for _, m := range l.reads {
			if op := m[ctx]; op != nil {
				op.dead = true
			}
		}
		return
	}
	if l.reads[node] == nil {
		l.reads[node] = map[int]*linOp{}
	}
	if _, ok := l.reads[node][ctx]; ok {
		return
	}
	key := 0
	if l.nkeys > 0 {
		key = ctx % l.nkeys
	}
	l.reads[node][ctx] = &linOp{node: node, key: key, call: step, ret: -1, ctx: ctx}
}

func (l *linRecorder) onReadState(n *Node, ctx int, index uint64, step int) {
	op := l.reads[n.id][ctx]
	if op == nil || op.hasIndex || op.ret >= 0 || op.dead {
		return
	}
	op.rindex = index
	op.hasIndex = true
	l.waiting[n.id] = append(l.waiting[n.id], op)
	l.onAppliedIndex(n, step)
}

func (l *linRecorder) onAppliedIndex(n *Node, step int) {
	w := l.waiting[n.id]
	if len(w) == 0 {
		return
	}
	j := 0
	for _, op := range w {
		if n.app.cur.Index >= op.rindex {
			op.val = n.app.cur.KV[op.key]
			op.ret = step
			l.done = append(l.done, op)
			continue
		}
		w[j] = op
		j++
	}
	l.waiting[n.id] = w[:j]
}

type regInput struct {
	write bool
	key   int
	val   int
}

var regModel = porcupine.Model{
	Partition: func(history []porcupine.Operation) [][]porcupine.Operation {
		by := map[int][]porcupine.Operation{}
		var keys []int
		for _, op := range history {
			k := op.Input.(regInput).key
			if _, ok := by[k]; !ok {
				keys = append(keys, k)
			}
			by[k] = append(by[k], op)
		}
		sort.Ints(keys)
		var out [][]porcupine.Operation
		for _, k := range keys {
			out = append(out, by[k])
		}
		return out
	},
	Init: func() interface{} { return 0 },
	Step: func(state, input, output interface{}) (bool, interface{}) {
		in := input.(regInput)
		if in.write {
			return true, in.val
		}
		return output.(int) == state.(int), state
	},
	DescribeOperation: func(input, output interface{}) string {
		in := input.(regInput)
		if in.write {
			return fmt.Sprintf("write(k%d=%d)", in.key, in.val)
		}
		return fmt.Sprintf("read(k%d)->%d", in.key, output.(int))
	},
}

// check runs porcupine over the recorded history. It returns (result, number of
// operations, description of the history when illegal).
func (l *linRecorder) check(finalStep int, timeout time.Duration) (porcupine.CheckResult, int, string) {
	var ops []porcupine.Operation
	inf := int64(finalStep+10) * 2
	var tags []int
	for t := range l.writes {
		tags = append(tags, t)
	}
	sort.Ints(tags)
	id := 0
	for _, t := range tags {
		w := l.writes[t]
		if w.dead {
			continue
		}
		if _, committed := l.commit[t]; !committed {
			continue // never took effect within the run
		}
		ret := inf
		if w.ret >= 0 {
			ret = int64(w.ret)*2 + 1
		}
		ops = append(ops, porcupine.Operation{ClientId: id, Input: regInput{true, w.key, w.val}, Call: int64(w.call) * 2, Output: 0, Return: ret})
		id++
	}
	reads := append([]*linOp(nil), l.done...)
	sort.Slice(reads, func(i, j int) bool {
		if reads[i].call != reads[j].call {
			return reads[i].call < reads[j].call
		}
		return reads[i].node < reads[j].node
	})
	for _, r := range reads {
		if r.dead {
			continue
		}
		ops = append(ops, porcupine.Operation{ClientId: id, Input: regInput{false, r.key, 0}, Call: int64(r.call) * 2, Output: r.val, Return: int64(r.ret)*2 + 1})
		id++
	}
	if len(reads) == 0 {
		return porcupine.Ok, len(ops), ""
	}
	res := porcupine.CheckOperationsTimeout(regModel, ops, timeout)
	desc := ""
	if res == porcupine.Illegal {
		for _, op := range ops {
			desc += fmt.Sprintf("[%d,%d] %s; ", op.Call, op.Return, regModel.DescribeOperation(op.Input, op.Output))
		}
	}
	return res, len(ops), desc
}
