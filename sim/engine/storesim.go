package engine

import (
	"bytes"
	"fmt"

	raft "go.etcd.io/raft/v3"
	pb "go.etcd.io/raft/v3/raftpb"
)

// E4 "storesim": the in-memory storage on its own (C18, first half of the
// statement). One real raft.MemoryStorage is driven by three parties whose
// operations interleave in a seeded order - the writer that completes raft's
// write groups (append = overwrite from an index, with entries below, inside
// and right after the stored range; snapshot installation at, inside and beyond
// the stored range, out of date or not), the application (snapshot creation,
// compaction) and a reader (first/last index, term-at and size-limited range
// queries inside and just outside the available range) - against the abstract
// list with a compacted prefix (absLog). Every operation a contract-following
// application can issue is generated; operations MemoryStorage documents as
// programming errors (a gap after the last index, compaction or snapshot
// creation beyond the last index, a range ending beyond the last index) are
// not.
//
// The simulation lives in the executor: its operations are actions with
// addressing relative to the current range, an inapplicable action is a no-op,
// so replay files and delta debugging work as for the other engines.

// storeSim is the per-run state of E4 (the storage under test is the node's
// disk page, the model its "written" image).
type storeSim struct {
	created int // entries created so far (payload tag)
}

func (c *Cluster) ssNode() *Node { return c.nodes[c.ids[0]] }

// ssTermBefore is the term the entry before index i has in the model (1 when unknown).
func ssTermBefore(w *absLog, i uint64) uint64 {
	if i == 0 {
		return 1
	}
	if t, ok := w.term(i - 1); ok && t > 0 {
		return t
	}
	if w.baseTerm > 0 {
		return w.baseTerm
	}
	return 1
}

// execStore executes one storesim action.
func (c *Cluster) execStore(a Action) bool {
	n := c.ssNode()
	d := n.disk
	w := d.written
	k := c.chk
	switch a.K {
	case ASAppend:
		// I: start relative to first-2 (capped at last+1); J: number of entries;
		// M: bit j = the term rises at the j-th entry; bit 7 = re-use the stored
		// entries where the range overlaps what is stored (an unchanged rewrite)
		start := w.first() + uint64(a.I)
		if start >= 2 {
			start -= 2
		} else {
			start = 0
		}
		if start < 1 {
			start = 1
		}
		if start > w.last()+1 {
			start = w.last() + 1
		}
		cnt := a.J
		if cnt < 1 {
			cnt = 1
		}
		reuse := a.M&0x80 != 0
		t := ssTermBefore(w, start)
		var ents []*pb.Entry
		for j := 0; j < cnt; j++ {
			idx := start + uint64(j)
			if reuse {
				if e := w.entry(idx); e != nil {
					ents = append(ents, e)
					t = e.GetTerm()
					continue
				}
			}
			if a.M&(1<<uint(j%7)) != 0 {
				t++
			}
			c.ss.created++
			ents = append(ents, &pb.Entry{Term: new(t), Index: new(idx), Data: []byte(fmt.Sprintf("s%d-%s", c.ss.created, bytes.Repeat([]byte{'x'}, (c.ss.created*7)%23)))})
		}
		last := ents[len(ents)-1]
		if last.GetIndex() < w.last() {
			c.stats.probe("append_truncates_stored_tail")
			if tt, ok := w.term(last.GetIndex()); ok && tt == last.GetTerm() {
				c.stats.probe("append_rewrites_prefix_of_longer_stored_tail")
			}
		}
		if ents[0].GetIndex() < w.first() {
			c.stats.probe("append_starts_below_first_index")
		}
		if !c.guardDisk(n, func() error { return d.Append(ents) }) {
			return true
		}
	case ASSnap:
		// I: index relative to (snapshot index - 1); M: 0 = the term the log has
		// there (when it has the index), otherwise last term + M
		si := w.snapIndex()
		idx := si + uint64(a.I)
		if idx >= 1 {
			idx--
		}
		if idx == 0 {
			return false
		}
		lt, _ := w.term(w.last())
		term := lt + a.M
		if a.M == 0 {
			if tt, ok := w.term(idx); ok {
				term = tt
			}
		}
		if term == 0 {
			term = 1
		}
		snap := &pb.Snapshot{Data: []byte(fmt.Sprintf("snap%d", idx)), Metadata: &pb.SnapshotMetadata{Index: new(idx), Term: new(term), ConfState: &pb.ConfState{Voters: []uint64{1}}}}
		wantErr := idx <= si
		inside := idx < w.last()
		var err error
		if !c.guardDisk(n, func() error { err = d.ApplySnapshot(snap); return nil }) {
			return true
		}
		k.count("lg.store.snapshot")
		if wantErr != (err == raft.ErrSnapOutOfDate) || (err != nil && err != raft.ErrSnapOutOfDate) {
			k.report("C18", "lg.store", n, fmt.Sprintf("ApplySnapshot(index=%d) with the storage's snapshot at %d answered %v", idx, si, err), "lg.store.snapshot")
			return true
		}
		if wantErr {
			c.stats.probe("snapshot_out_of_date_on_write")
		} else if inside {
			c.stats.probe("snapshot_inside_stored_range")
		}
	case ASCreateSnap:
		// I: index relative to first-1
		idx := w.first() - 1 + uint64(a.I)
		if idx > w.last() {
			return false // documented programming error
		}
		wantErr := idx <= w.snapIndex()
		var err error
		if !c.guardDisk(n, func() error {
			_, err = d.CreateSnapshot(idx, &pb.ConfState{Voters: []uint64{1}}, []byte(fmt.Sprintf("snap%d", idx)))
			return nil
		}) {
			return true
		}
		k.count("lg.store.create")
		if wantErr != (err == raft.ErrSnapOutOfDate) || (err != nil && err != raft.ErrSnapOutOfDate) {
			k.report("C18", "lg.store", n, fmt.Sprintf("CreateSnapshot(%d) with the storage's snapshot at %d answered %v", idx, w.snapIndex(), err), "lg.store.create")
			return true
		}
	case ASCompact:
		// I: compaction index relative to first-1; never beyond the latest snapshot (A10)
		to := w.first() - 1 + uint64(a.I)
		if to > w.last() || to > w.snapIndex() {
			return false
		}
		wantErr := to <= w.baseIndex
		var err error
		if !c.guardDisk(n, func() error { err = d.Compact(to); return nil }) {
			return true
		}
		k.count("lg.store.compact")
		if wantErr != (err == raft.ErrCompacted) || (err != nil && err != raft.ErrCompacted) {
			k.report("C18", "lg.store", n, fmt.Sprintf("Compact(%d) with the compaction point at %d answered %v", to, w.baseIndex, err), "lg.store.compact")
			return true
		}
	case ASQuery:
		// the reader's turn only (the queries below run after every operation)
	default:
		return false
	}
	if c.viol != nil {
		return true
	}
	k.onWrite(n) // lg.page: the storage equals the abstract list
	if c.viol == nil {
		c.ssQueries(n, a)
	}
	return true
}

// ssQueries compares the storage's answers with the abstract list: term-at on
// every index from two below the compaction point to two beyond the last
// index, and one size-limited range query chosen by the action.
func (c *Cluster) ssQueries(n *Node, a Action) {
	k := c.chk
	d := n.disk
	w := d.written
	ms := d.page
	k.count("lg.store.query")
	var msg string
	func() {
		defer func() {
			if r := recover(); r != nil {
				msg = fmt.Sprintf("query panicked: %v", r)
			}
		}()
		lo := w.baseIndex
		if lo >= 2 {
			lo -= 2
		} else {
			lo = 0
		}
		for i := lo; i <= w.last()+2; i++ {
			t, err := ms.Term(i)
			switch {
			case i < w.baseIndex:
				if err != raft.ErrCompacted {
					msg = fmt.Sprintf("Term(%d) below the compaction point %d answered (%d, %v), want ErrCompacted", i, w.baseIndex, t, err)
					return
				}
			case i > w.last():
				if err != raft.ErrUnavailable {
					msg = fmt.Sprintf("Term(%d) beyond the last index %d answered (%d, %v), want ErrUnavailable", i, w.last(), t, err)
					return
				}
			default:
				wt, _ := w.term(i)
				if err != nil || t != wt {
					msg = fmt.Sprintf("Term(%d) answered (%d, %v), the abstract log has term %d", i, t, err, wt)
					return
				}
			}
		}
		// a range ending beyond last+1 is a documented programming error; a range
		// starting at or below the compaction point answers ErrCompacted
		if _, err := ms.Entries(w.baseIndex, w.baseIndex+1, ^uint64(0)); err != raft.ErrCompacted {
			msg = fmt.Sprintf("Entries(%d,%d) at the compaction point answered %v, want ErrCompacted", w.baseIndex, w.baseIndex+1, err)
			return
		}
		if len(w.ents) == 0 {
			return
		}
		h := Mix(uint64(c.step), uint64(a.I)<<8|uint64(a.J))
		qlo := w.first() + h%uint64(len(w.ents))
		qhi := qlo + 1 + (h>>16)%(w.last()+1-qlo)
		want := w.ents[qlo-w.first() : qhi-w.first()]
		var limit uint64
		switch (h >> 32) % 5 {
		case 0:
			limit = 0
		case 1:
			limit = ^uint64(0)
		default:
			kk := 1 + int((h>>40)%uint64(len(want)))
			limit = raft.VerifEntsSize(want[:kk])
			switch (h >> 48) % 3 {
			case 0:
				limit--
			case 1:
				limit++
			}
		}
		got, err := ms.Entries(qlo, qhi, limit)
		if err != nil {
			msg = fmt.Sprintf("Entries(%d,%d,%d) answered %v", qlo, qhi, limit, err)
			return
		}
		exp := 1
		size := raft.VerifEntsSize(want[:1])
		for exp < len(want) {
			size += raft.VerifEntsSize(want[exp : exp+1])
			if size > limit {
				break
			}
			exp++
		}
		if len(got) != exp {
			msg = fmt.Sprintf("Entries(%d,%d,%d) returned %d entries, the longest non-empty prefix that fits has %d", qlo, qhi, limit, len(got), exp)
			return
		}
		for i, e := range got {
			if e.GetIndex() != want[i].GetIndex() || e.GetTerm() != want[i].GetTerm() || !bytes.Equal(e.GetData(), want[i].GetData()) {
				msg = fmt.Sprintf("Entries(%d,%d,%d): position %d holds (index=%d, term=%d, %q), the abstract log has (index=%d, term=%d, %q): an overwritten or foreign entry is exposed", qlo, qhi, limit, i, e.GetIndex(), e.GetTerm(), e.GetData(), want[i].GetIndex(), want[i].GetTerm(), want[i].GetData())
				return
			}
		}
	}()
	if msg != "" {
		k.report("C18", "lg.store", n, msg, "lg.store.query")
	}
}

// storeOp is the E4 workload: one operation of one of the three parties.
func (g *Gen) storeOp() {
	c := g.c
	w := c.ssNode().disk.written
	span := int(w.last()-w.baseIndex) + 4
	switch pick(g.rng, g.ssWeights) {
	case 0:
		m := uint64(g.rng.IntN(128))
		if chance(g.rng, 0.5) {
			m &= uint64(g.rng.IntN(128)) // fewer term changes
		}
		if chance(g.rng, 0.3) {
			m |= 0x80
		}
		start := g.rng.IntN(span + 1)
		if chance(g.rng, 0.4) {
			start = span // right after the last index: a plain append
		}
		g.do(Action{K: ASAppend, I: start, J: 1 + g.rng.IntN(5), M: m})
	case 1:
		m := uint64(0)
		if chance(g.rng, 0.6) {
			m = uint64(1 + g.rng.IntN(2))
		}
		room := 5
		if w.last() > w.snapIndex() {
			room += int(w.last() - w.snapIndex())
		}
		g.do(Action{K: ASSnap, I: g.rng.IntN(room), M: m})
	case 2:
		g.do(Action{K: ASCreateSnap, I: g.rng.IntN(span)})
	case 3:
		g.do(Action{K: ASCompact, I: g.rng.IntN(span)})
	case 4:
		g.do(Action{K: ASQuery, I: g.rng.IntN(64), J: g.rng.IntN(64)})
	}
}
