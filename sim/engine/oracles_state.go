package engine

import (
	"bytes"
	"fmt"

	raft "go.etcd.io/raft/v3"
	pb "go.etcd.io/raft/v3/raftpb"
	"go.etcd.io/raft/v3/tracker"
)

const transferCtx = "CampaignTransfer"

func isLeader(st *raft.VerifState) bool { return st.State == raft.StateLeader }

func inSet(s []uint64, id uint64) bool {
	for _, v := range s {
		if v == id {
			return true
		}
	}
	return false
}

// trackState runs the step monitors on (pre, post) of one RawNode call. pre is
// nil right after (re)start.
func (k *Checker) trackState(n *Node, pre, post *raft.VerifState, ctx *callCtx) {
	x := k.nc[n.id]
	c := k.c
	if post.Term > c.stats.MaxTerm {
		c.stats.MaxTerm = post.Term
	}

	// ---- C07 hs.monotone on the node's state
	k.count("hs.monotone")
	if x.haveHS {
		if post.Term < x.hsTerm {
			k.report("C07", "hs.monotone", n, fmt.Sprintf("term went back from %d to %d", x.hsTerm, post.Term), "hs.term")
			return
		}
		if post.Committed < x.hsCommit {
			k.report("C07", "hs.monotone", n, fmt.Sprintf("commit index went back from %d to %d", x.hsCommit, post.Committed), "hs.commit")
			return
		}
		if post.Term == x.hsTerm && post.Vote != x.hsVote && x.hsVote != 0 {
			k.report("C07", "hs.monotone", n, fmt.Sprintf("vote changed from %d to %d within term %d", x.hsVote, post.Vote, post.Term), "hs.vote")
			return
		}
	}
	x.haveHS, x.hsTerm, x.hsVote, x.hsCommit = true, post.Term, post.Vote, post.Committed

	// ---- C02 el.one_vote against votes already handed out
	if post.Vote != 0 {
		if cand, ok := k.sentVotes[voteKey{n.id, post.Term}]; ok && cand != post.Vote {
			k.report("C02", "el.one_vote", n, fmt.Sprintf("holds vote for %d in term %d after having granted its vote for that term to %d", post.Vote, post.Term, cand), "")
			return
		}
	}

	// ---- C06 cm.bounds
	k.count("cm.bounds")
	if post.Committed > post.LastIndex {
		k.report("C06", "cm.bounds", n, fmt.Sprintf("commit %d beyond last index %d", post.Committed, post.LastIndex), "cm.beyond_log")
		return
	}
	var preCommit uint64
	if pre != nil {
		preCommit = pre.Committed
	} else {
		preCommit = post.FirstIndex - 1
		if preCommit > post.Committed {
			preCommit = post.Committed
		}
	}
	advanced := post.Committed > preCommit
	if advanced {
		k.registerCommitted(n, post, preCommit, post.Committed)
		if c.viol != nil {
			return
		}
		if post.Committed > c.stats.MaxCommit {
			c.stats.MaxCommit = post.Committed
		}
		// every index newly covered by commit and still in the log equals G (C01)
		for i := max(preCommit+1, x.logFirst); i <= post.Committed; i++ {
			e := x.entryAt(i)
			g := k.gAt(i)
			if e != nil && g != nil && (g.term != e.GetTerm() || g.hash != hashEntry(e)) {
				k.report2("C01", "sm.never_replaced", "C04", "lc.no_overwrite", n, fmt.Sprintf("commit covers index %d holding term %d, committed entry has term %d", i, e.GetTerm(), g.term), "")
				return
			}
		}
		if isLeader(post) && pre != nil && ctx.what != "start" {
			k.checkLeaderAdvance(n, pre, post)
			if c.viol != nil {
				return
			}
		} else if ctx.what != "start" && ctx.what != "Bootstrap" {
			if post.Committed > k.leaderCommitMax {
				k.report("C06", "cm.follower", n, fmt.Sprintf("non-leader commit index %d exceeds everything any leader has committed (%d)", post.Committed, k.leaderCommitMax), "")
				return
			}
		}
	}
	if isLeader(post) && post.Committed > k.leaderCommitMax {
		k.leaderCommitMax = post.Committed
	}

	// ---- role transitions
	becameLeader := isLeader(post) && (pre == nil || !isLeader(pre) || pre.Term != post.Term)
	if becameLeader {
		k.onBecomeLeader(n, pre, post, ctx)
		if c.viol != nil {
			return
		}
	}
	if isLeader(post) {
		k.count("el.one_leader")
		if rec, ok := k.leaders[post.Term]; ok {
			if rec.node != n.id {
				k.report("C02", "el.one_leader", n, fmt.Sprintf("nodes %d and %d both lead term %d", rec.node, n.id, post.Term), "el.two_leaders")
				return
			}
			if rec.inc != n.inc {
				k.report("C02", "el.one_leader", n, fmt.Sprintf("node %d leads term %d again after a restart (incarnations %d and %d)", n.id, post.Term, rec.inc, n.inc), "el.leader_twice")
				return
			}
		} else {
			k.leaders[post.Term] = leaderRec{n.id, n.inc}
			c.stats.LeaderTerms++
		}
	}
	if pre != nil {
		k.checkCampaignStart(n, pre, post, ctx)
		if c.viol != nil {
			return
		}
		k.checkVoteStep(n, pre, post, ctx)
		if c.viol != nil {
			return
		}
		k.checkPreVoteCheckQuorum(n, pre, post, ctx)
		if c.viol != nil {
			return
		}
		k.checkSnapshotStep(n, pre, post, ctx)
		if c.viol != nil {
			return
		}
		k.checkWire(n, pre, post, ctx)
		if c.viol != nil {
			return
		}
		k.checkReadProducer(n, pre, post, ctx)
		if c.viol != nil {
			return
		}
		k.checkConfAppend(n, pre, post, ctx)
		if c.viol != nil {
			return
		}
		k.checkUncommitted(n, pre, post, ctx)
		if c.viol != nil {
			return
		}
	}
	if pre != nil && pre.UnstableSnapshot != nil && post.UnstableSnapshot == nil {
		// C09 sn.acked: when the install of an accepted snapshot is acknowledged,
		// the snapshot is the node's log base.
		k.count("sn.acked")
		si := pre.UnstableSnapshot.GetMetadata().GetIndex()
		if post.FirstIndex != si+1 && post.FirstIndex <= si {
			k.report("C09", "sn.acked", n, fmt.Sprintf("accepted snapshot at %d is no longer pending but the log base is %d", si, post.FirstIndex-1), "")
			return
		}
	}
	k.checkSelfAck(n, post)
	if c.viol != nil {
		return
	}
	k.checkMatchSound(n, post)
	if c.viol != nil {
		return
	}
	k.trackLeadership(n, pre, post, ctx)
}

// checkLeaderAdvance is C06 cm.leader_advance.
func (k *Checker) checkLeaderAdvance(n *Node, pre, post *raft.VerifState) {
	k.count("cm.leader_advance")
	x := k.nc[n.id]
	cidx := post.Committed
	e := x.entryAt(cidx)
	if e == nil {
		k.report("C06", "cm.leader_advance", n, fmt.Sprintf("leader advanced commit to %d which is not in its log", cidx), "cm.la.missing")
		return
	}
	if e.GetTerm() != post.Term {
		k.report("C06", "cm.leader_advance", n, fmt.Sprintf("leader of term %d advanced commit to %d whose entry has term %d", post.Term, cidx, e.GetTerm()), "cm.la.term")
		return
	}
	h := hashEntry(e)
	holds := func(id uint64) bool {
		m := k.c.nodes[id]
		if m == nil {
			return false
		}
		d := m.disk.dur
		if de := d.entry(cidx); de != nil {
			return de.GetTerm() == e.GetTerm() && hashEntry(de) == h
		}
		if cidx <= d.snapIndex() || (cidx == d.baseIndex && d.baseTerm == e.GetTerm()) {
			return true
		}
		return false
	}
	if !jointMaj(post.Voters, post.VotersOutgoing, holds) {
		var have []uint64
		for _, id := range k.c.ids {
			if holds(id) {
				have = append(have, id)
			}
		}
		msg := fmt.Sprintf("leader of term %d advanced commit to %d but only %v durably hold that entry (voters %v, outgoing %v)", post.Term, cidx, have, post.Voters, post.VotersOutgoing)
		if len(post.VotersOutgoing) > 0 {
			// C10: majorities of both voter sets while the configuration is joint
			k.report2("C06", "cm.leader_advance", "C10", "mc.joint_quorums", n, msg, "cm.la.quorum")
		} else {
			k.report("C06", "cm.leader_advance", n, msg, "cm.la.quorum")
		}
		return
	}
	if len(post.VotersOutgoing) > 0 {
		k.c.stats.probe("commit_in_joint_config")
	}
}

// onBecomeLeader: C02 el.quorum and C04 lc.at_election.
func (k *Checker) onBecomeLeader(n *Node, pre, post *raft.VerifState, ctx *callCtx) {
	x := k.nc[n.id]
	t := post.Term
	k.count("el.quorum")
	granted := func(id uint64) bool {
		if id == n.id {
			return x.selfVoteTerm == t
		}
		return k.sentVotes[voteKey{id, t}] == n.id
	}
	if !jointMaj(post.Voters, post.VotersOutgoing, granted) {
		var have []uint64
		for _, id := range k.c.ids {
			if granted(id) {
				have = append(have, id)
			}
		}
		msg := fmt.Sprintf("became leader of term %d with granted votes from %v only (voters %v, outgoing %v)", t, have, post.Voters, post.VotersOutgoing)
		if len(post.VotersOutgoing) > 0 {
			k.report2("C02", "el.quorum", "C10", "mc.joint_quorums", n, msg, "el.quorum")
		} else {
			k.report("C02", "el.quorum", n, msg, "")
		}
		return
	}
	if len(post.VotersOutgoing) > 0 {
		k.c.stats.probe("election_in_joint_config")
	}
	if ctx.msg != nil && ctx.msg.GetFrom() != n.id {
		k.c.stats.probe("leader_elected_by_peer_vote")
	}
	// C04 lc.at_election
	k.count("lc.at_election")
	for i := k.gBase + 1; i <= k.gMax(); i++ {
		g := k.gAt(i)
		if g.commitTerm >= t {
			continue
		}
		if i < x.logFirst {
			continue // covered by the node's snapshot; checked below
		}
		e := x.entryAt(i)
		if e == nil {
			k.report("C04", "lc.at_election", n, fmt.Sprintf("became leader of term %d without entry %d (term %d) committed in term %d", t, i, g.term, g.commitTerm), "lc.missing")
			return
		}
		if e.GetTerm() != g.term || hashEntry(e) != g.hash {
			k.report("C04", "lc.at_election", n, fmt.Sprintf("became leader of term %d holding (index=%d, term=%d) where (index=%d, term=%d) was committed in term %d", t, i, e.GetTerm(), i, g.term, g.commitTerm), "lc.differs")
			return
		}
	}
	if x.logFirst > 1 && x.prevOK {
		if g := k.gAt(x.logFirst - 1); g != nil && g.term != x.prevTerm {
			k.report("C04", "lc.at_election", n, fmt.Sprintf("became leader of term %d with snapshot (index=%d, term=%d) but the committed entry there has term %d", t, x.logFirst-1, x.prevTerm, g.term), "lc.snapshot")
			return
		}
	}
	if lt, li := x.lastID(); li > post.Committed && lt < t {
		_ = lt
		k.c.stats.probe("leader_with_uncommitted_old_tail")
	}
}

// checkCampaignStart is C10 mc.no_campaign_unapplied.
func (k *Checker) checkCampaignStart(n *Node, pre, post *raft.VerifState, ctx *callCtx) {
	started := (post.State == raft.StateCandidate || post.State == raft.StatePreCandidate) &&
		(pre.State != post.State || pre.Term != post.Term) &&
		!(pre.State == raft.StatePreCandidate && post.State == raft.StateCandidate)
	if !started {
		return
	}
	k.count("mc.no_campaign_unapplied")
	x := k.nc[n.id]
	// "unapplied" is judged by what the application has really applied, which is
	// never behind what raft has been told
	for i := min(pre.Applied, n.app.cur.Index) + 1; i <= pre.Committed; i++ {
		e := x.entryAt(i)
		if e != nil && (e.GetType() == pb.EntryConfChange || e.GetType() == pb.EntryConfChangeV2) {
			k.report("C10", "mc.no_campaign_unapplied", n, fmt.Sprintf("started campaigning at term %d with committed but unapplied conf change at index %d (applied %d, commit %d)", post.Term, i, pre.Applied, pre.Committed), "")
			return
		}
	}
	others := 0
	for _, id := range k.c.ids {
		if m := k.c.nodes[id]; m.up && id != n.id && (m.st.State == raft.StateCandidate || m.st.State == raft.StatePreCandidate) {
			others++
		}
	}
	if others > 0 {
		k.c.stats.probe("simultaneous_candidates")
	}
	if len(post.VotersOutgoing) > 0 {
		k.c.stats.probe("campaign_in_joint_config")
		only := 0
		for _, v := range post.VotersOutgoing {
			if !inSet(post.Voters, v) {
				only++
			}
		}
		if only >= 2 {
			k.c.stats.probe("campaign_in_joint_config_two_outgoing_only_voters")
		}
	}
}

// checkVoteStep is C02 el.up_to_date: a step that records a real vote for a
// candidate does so only if the candidate's log is at least as up to date.
func (k *Checker) checkVoteStep(n *Node, pre, post *raft.VerifState, ctx *callCtx) {
	m := ctx.msg
	if m == nil || m.GetType() != pb.MsgVote {
		return
	}
	if post.Vote != m.GetFrom() || post.Term != m.GetTerm() {
		return
	}
	if pre.Vote == post.Vote && pre.Term == post.Term {
		// A repeated request; the vote was decided earlier.
		k.c.stats.probe("vote_request_repeated")
	}
	// Was a grant produced by this step?
	grant := false
	for _, r := range post.MsgsAfterAppend[min(len(pre.MsgsAfterAppend), len(post.MsgsAfterAppend)):] {
		if r.GetType() == pb.MsgVoteResp && !r.GetReject() && r.GetTo() == m.GetFrom() {
			grant = true
		}
	}
	if !grant {
		return
	}
	k.count("el.up_to_date")
	x := k.nc[n.id]
	lt, li := x.lastID()
	if m.GetLogTerm() < lt || (m.GetLogTerm() == lt && m.GetIndex() < li) {
		k.report("C02", "el.up_to_date", n, fmt.Sprintf("granted vote in term %d to %d whose last entry (term=%d, index=%d) is behind own (term=%d, index=%d)", m.GetTerm(), m.GetFrom(), m.GetLogTerm(), m.GetIndex(), lt, li), "")
		return
	}
	if bytes.Equal(m.GetContext(), []byte(transferCtx)) {
		k.c.stats.probe("forced_vote_granted")
	}
}

// checkSelfAck is C05 dur.self_ack.
func (k *Checker) checkSelfAck(n *Node, post *raft.VerifState) {
	if !isLeader(post) {
		return
	}
	pr, ok := post.Progress[n.id]
	if !ok || pr.Match == 0 {
		return
	}
	x := k.nc[n.id]
	e := x.entryAt(pr.Match)
	if e == nil || e.GetTerm() != post.Term {
		return
	}
	k.count("dur.self_ack")
	d := n.disk.dur
	de := d.entry(pr.Match)
	if de == nil || de.GetTerm() != e.GetTerm() {
		if pr.Match <= d.snapIndex() {
			return
		}
		k.report("C05", "dur.self_ack", n, fmt.Sprintf("leader of term %d counts its own entry %d as acknowledged but its durable log ends at %d", post.Term, pr.Match, d.last()), "")
	}
}

// checkMatchSound is C06 cm.match_sound: the leader's Match for a follower is
// knowledge of that follower's durable matching prefix. Whenever it changes,
// the follower's durable log must hold the leader's entry at that index,
// unless a leader of a higher term has meanwhile been at work on the follower
// (its durable term is then above this leader's).
func (k *Checker) checkMatchSound(n *Node, post *raft.VerifState) {
	x := k.nc[n.id]
	if !isLeader(post) {
		if len(x.lastMatch) > 0 {
			x.lastMatch = map[uint64]uint64{}
		}
		return
	}
	if x.lastMatch == nil || x.lastMatchTerm != post.Term {
		x.lastMatch, x.lastMatchTerm = map[uint64]uint64{}, post.Term
	}
	for _, id := range post.ProgressIDs {
		if id == n.id {
			continue
		}
		m := post.Progress[id].Match
		if m == x.lastMatch[id] {
			continue
		}
		x.lastMatch[id] = m
		if m == 0 {
			continue
		}
		f := k.c.nodes[id]
		if f == nil {
			continue
		}
		k.count("cm.match_sound")
		d := f.disk.dur
		if d.hs.GetTerm() > post.Term {
			continue
		}
		lt, ok := x.termAt(m)
		if !ok {
			continue // compacted on the leader
		}
		if ft, ok := d.term(m); ok {
			if ft == lt {
				continue
			}
		} else if m <= d.snapIndex() {
			continue
		}
		k.report("C06", "cm.match_sound", n, fmt.Sprintf("leader of term %d records match index %d for %d, whose durable log [%d,%d] (snapshot %d, term %d) does not hold that entry", post.Term, m, id, d.first(), d.last(), d.snapIndex(), d.hs.GetTerm()), "")
		return
	}
}

// trackLeadership maintains what the C17 cq.stepdown oracle needs.
func (k *Checker) trackLeadership(n *Node, pre, post *raft.VerifState, ctx *callCtx) {
	x := k.nc[n.id]
	if isLeader(post) {
		if !x.isLeader || x.leaderTerm != post.Term {
			x.isLeader, x.leaderTerm, x.leaderSince = true, post.Term, n.ticks
			x.heardTick = map[uint64]uint64{}
			x.confVersions = nil
			x.lastDisqTick = n.ticks
			x.readRecv = map[string]int{}
			x.hbResp = map[uint64]int{}
		}
		if ctx.msg != nil && ctx.msg.GetFrom() != n.id && ctx.msg.GetFrom() != 0 && ctx.what == "Step" && !raft.IsLocalMsgTarget(ctx.msg.GetFrom()) {
			x.heardTick[ctx.msg.GetFrom()] = n.ticks
		}
		switch ctx.what {
		case "TransferLeader":
			x.lastDisqTick = n.ticks
		}
		// configuration versions during this leadership
		if len(x.confVersions) == 0 || !equalIDs(x.confVersions[len(x.confVersions)-1].voters, post.Voters) || !equalIDs(x.confVersions[len(x.confVersions)-1].outgoing, post.VotersOutgoing) {
			x.confVersions = append(x.confVersions, confVersion{tick: n.ticks, voters: post.Voters, outgoing: post.VotersOutgoing})
		}
		// A peer that enters the leader's tracker starts out as recently heard
		// from; a learner that is promoted does not.
		if pre != nil && isLeader(pre) {
			for _, id := range post.ProgressIDs {
				if _, had := pre.Progress[id]; !had {
					x.heardTick[id] = n.ticks
				}
			}
		}
		if ctx.msg != nil && ctx.msg.GetType() == pb.MsgTransferLeader {
			x.lastDisqTick = n.ticks
		}
	} else {
		x.isLeader = false
	}
}

// checkPreVoteCheckQuorum holds the C17 monitors.
func (k *Checker) checkPreVoteCheckQuorum(n *Node, pre, post *raft.VerifState, ctx *callCtx) {
	x := k.nc[n.id]
	m := ctx.msg
	if m != nil && ctx.what == "Step" {
		// pv.no_effect
		if m.GetType() == pb.MsgPreVote {
			k.count("pv.no_effect")
			if post.Term != pre.Term || post.Vote != pre.Vote {
				k.report("C17", "pv.no_effect", n, fmt.Sprintf("MsgPreVote from %d changed (term, vote) from (%d,%d) to (%d,%d)", m.GetFrom(), pre.Term, pre.Vote, post.Term, post.Vote), "")
				return
			}
		}
		// pv.grant: a granted pre-vote response never moves the receiver's term
		// by itself; the term is raised only by campaigning on a quorum of them
		// (checked by pv.term_raise).
		if m.GetType() == pb.MsgPreVoteResp && !m.GetReject() && n.cfg.PreVote {
			k.count("pv.grant")
			if post.Term != pre.Term && post.State != raft.StateCandidate {
				k.report("C17", "pv.grant", n, fmt.Sprintf("a granted MsgPreVoteResp (term %d) from %d moved the node from term %d to term %d without a campaign (state %s)", m.GetTerm(), m.GetFrom(), pre.Term, post.Term, post.State), "")
				return
			}
		}
		// cq.lease
		if (m.GetType() == pb.MsgVote || m.GetType() == pb.MsgPreVote) && n.cfg.CheckQuorum && m.GetTerm() > pre.Term &&
			!bytes.Equal(m.GetContext(), []byte(transferCtx)) &&
			pre.Lead != 0 && x.heardValid && x.lastHeardLead == pre.Lead && x.lastHeardTerm == pre.Term &&
			n.ticks-x.lastHeardTick < uint64(n.cfg.ElectionTick) {
			k.count("cq.lease")
			k.c.stats.probe("lease_protected_vote_request")
			newResp := len(post.MsgsAfterAppend) > len(pre.MsgsAfterAppend) || len(post.Msgs) > len(pre.Msgs)
			if post.Term != pre.Term || post.Vote != pre.Vote || newResp {
				k.report("C17", "cq.lease", n, fmt.Sprintf("%s (term %d) from %d was acted upon %d ticks after hearing from leader %d: (term,vote) (%d,%d)->(%d,%d), response=%v",
					m.GetType(), m.GetTerm(), m.GetFrom(), n.ticks-x.lastHeardTick, pre.Lead, pre.Term, pre.Vote, post.Term, post.Vote, newResp), "")
				return
			}
		}
		// remember when the node last heard from its leader
		if t := m.GetType(); (t == pb.MsgApp || t == pb.MsgHeartbeat || t == pb.MsgSnap) && m.GetTerm() == post.Term && post.Lead == m.GetFrom() {
			x.heardValid, x.lastHeardLead, x.lastHeardTerm, x.lastHeardTick = true, m.GetFrom(), post.Term, n.ticks
		}
	}
	if post.Lead != pre.Lead || post.Term != pre.Term {
		if !(m != nil && post.Lead == m.GetFrom() && x.heardValid && x.lastHeardLead == post.Lead && x.lastHeardTerm == post.Term) {
			x.heardValid = false
		}
	}
	// pv.term_raise
	if n.cfg.PreVote && post.State == raft.StateCandidate && post.Term == pre.Term+1 && (pre.State != raft.StateCandidate || pre.Term != post.Term) {
		k.count("pv.term_raise")
		forced := m != nil && m.GetType() == pb.MsgTimeoutNow
		if forced {
			k.c.stats.probe("campaign_by_timeout_now")
		} else {
			gr := k.preVotes[voteKey{n.id, post.Term}]
			granted := func(id uint64) bool { return id == n.id || gr[id] }
			if !jointMaj(post.Voters, post.VotersOutgoing, granted) {
				k.report("C17", "pv.term_raise", n, fmt.Sprintf("raised its term to %d to campaign with pre-vote grants for that term from %v only (voters %v, outgoing %v)", post.Term, sortedKeys(gr), post.Voters, post.VotersOutgoing), "")
				return
			}
		}
	}
	// cq.stepdown
	if ctx.what == "Tick" && n.cfg.CheckQuorum && x.isLeader && isLeader(post) && isLeader(pre) {
		w := uint64(2 * n.cfg.ElectionTick)
		if n.ticks >= w && x.leaderSince+w <= n.ticks && x.lastDisqTick+w <= n.ticks {
			k.count("cq.stepdown")
			heard := func(id uint64) bool {
				if id == n.id {
					return true
				}
				t, ok := x.heardTick[id]
				return ok && t+w > n.ticks
			}
			// The check that must have fired lies within the last election
			// timeout; the configuration it used is one of those in force during
			// that time. Only if the peers heard from are no quorum under any of
			// them is the verdict certain.
			certain := true
			for i, cv := range x.confVersions {
				end := n.ticks + 1
				if i+1 < len(x.confVersions) {
					end = x.confVersions[i+1].tick
				}
				if end+uint64(n.cfg.ElectionTick) <= n.ticks {
					continue // ended before the last election timeout began
				}
				if jointMaj(cv.voters, cv.outgoing, heard) {
					certain = false
				}
			}
			if certain && !jointMaj(post.Voters, post.VotersOutgoing, heard) {
				k.report("C17", "cq.stepdown", n, fmt.Sprintf("still leader of term %d after %d ticks without hearing from a quorum (voters %v, outgoing %v, heard %v)", post.Term, w, post.Voters, post.VotersOutgoing, x.heardTick), "")
				return
			}
		}
	}
	if pre.State == raft.StateLeader && post.State != raft.StateLeader && ctx.what == "Tick" {
		k.c.stats.probe("leader_stepped_down_checkquorum")
	}
}

// checkSnapshotStep is C09 sn.install.
func (k *Checker) checkSnapshotStep(n *Node, pre, post *raft.VerifState, ctx *callCtx) {
	m := ctx.msg
	if m == nil || m.GetType() != pb.MsgSnap || ctx.what != "Step" {
		return
	}
	k.count("sn.install")
	x := k.nc[n.id]
	if pre.UnstableSnapshot != nil {
		k.c.stats.probe("snapshot_arrives_while_one_is_pending")
		pi := pre.UnstableSnapshot.GetMetadata().GetIndex()
		switch si := m.GetSnapshot().GetMetadata().GetIndex(); {
		case si < pi:
			k.c.stats.probe("older_snapshot_arrives_while_newer_pending")
		case si > pi:
			k.c.stats.probe("newer_snapshot_arrives_while_older_pending")
		}
	}
	s := m.GetSnapshot()
	idx, term := s.GetMetadata().GetIndex(), s.GetMetadata().GetTerm()
	installed := post.UnstableSnapshot != nil && post.UnstableSnapshot != pre.UnstableSnapshot
	if post.Committed < pre.Committed {
		k.report("C09", "sn.install", n, fmt.Sprintf("MsgSnap lowered commit from %d to %d", pre.Committed, post.Committed), "sn.commit_back")
		return
	}
	cs := s.GetMetadata().GetConfState()
	member := inSet(cs.GetVoters(), n.id) || inSet(cs.GetLearners(), n.id) || inSet(cs.GetVotersOutgoing(), n.id)
	switch {
	case m.GetTerm() < pre.Term:
		if installed {
			k.report("C09", "sn.install", n, "installed a snapshot from a message of a lower term", "sn.stale_term")
		}
		return
	case idx <= pre.Committed:
		k.c.stats.probe("snapshot_stale_ignored")
		if installed || post.Committed != pre.Committed || post.LastIndex != pre.LastIndex || post.FirstIndex != pre.FirstIndex {
			k.report("C09", "sn.install", n, fmt.Sprintf("snapshot at %d <= commit %d was not ignored (installed=%v commit %d->%d log [%d,%d]->[%d,%d])", idx, pre.Committed, installed, pre.Committed, post.Committed, pre.FirstIndex, pre.LastIndex, post.FirstIndex, post.LastIndex), "sn.stale_installed")
		}
		return
	}
	// did the local log (before the step) already hold (idx, term)?
	had := false
	if idx >= pre.FirstIndex-1 && idx <= pre.LastIndex {
		// the cache x.log is post-step; for a non-installing step the log is unchanged
		if t, ok := x.termAt(idx); ok && !installed && t == term {
			had = true
		}
	}
	if installed && x.preSnapHad {
		// the log view as of the previous step held the entry the snapshot ends with
		k.report("C09", "sn.install", n, fmt.Sprintf("snapshot (%d,%d) was installed although the local log already held that entry (log [%d,%d], commit %d): at most the commit index may be fast-forwarded", idx, term, pre.FirstIndex, pre.LastIndex, pre.Committed), "sn.ff_installed")
		return
	}
	switch {
	case had:
		k.c.stats.probe("snapshot_fast_forward")
		// "at most the commit index is fast-forwarded": commit stays or becomes idx.
		if (post.Committed != idx && post.Committed != pre.Committed) || post.LastIndex != pre.LastIndex || post.FirstIndex != pre.FirstIndex {
			k.report("C09", "sn.install", n, fmt.Sprintf("snapshot (%d,%d) matches the local log: expected at most a commit fast-forward to %d, got commit %d->%d log [%d,%d]->[%d,%d]", idx, term, idx, pre.Committed, post.Committed, pre.FirstIndex, pre.LastIndex, post.FirstIndex, post.LastIndex), "sn.ff")
		}
		if post.Committed == idx {
			k.c.stats.probe("snapshot_fast_forward_done")
		}
	case installed:
		k.c.stats.probe("snapshot_installed")
		us := post.UnstableSnapshot.GetMetadata()
		if us.GetIndex() != idx || us.GetTerm() != term || post.FirstIndex != idx+1 || post.LastIndex != idx || post.Committed != idx {
			k.report("C09", "sn.install", n, fmt.Sprintf("installed snapshot (%d,%d) but log base is (%d,%d), log [%d,%d], commit %d", idx, term, us.GetIndex(), us.GetTerm(), post.FirstIndex, post.LastIndex, post.Committed), "sn.base")
			return
		}
		if !member {
			k.report("C09", "sn.install", n, "installed a snapshot whose membership does not contain the node", "sn.nonmember")
			return
		}
		want := refConfFromConfState(cs)
		got := refConfFromLists(post.Voters, post.VotersOutgoing, post.Learners, post.LearnersNext, post.AutoLeave)
		if !want.Equal(got) {
			k.report("C09", "sn.install", n, fmt.Sprintf("after installing snapshot the configuration is %s, the snapshot says %s", got, want), "sn.conf")
			return
		}
		if pre.LastIndex > pre.Committed {
			k.c.stats.probe("snapshot_replaced_divergent_tail")
		}
		x.snapBaseIdx, x.snapBaseConf = idx, want
	default:
		// Not installed and not matching. The statement does not oblige a node to
		// accept a snapshot (raft refuses e.g. for non-members, non-followers and
		// while configuration changes are pending application); it only must
		// not be damaged by it: nothing may have changed.
		if post.Committed != pre.Committed || post.LastIndex != pre.LastIndex || post.FirstIndex != pre.FirstIndex {
			k.report("C09", "sn.install", n, fmt.Sprintf("refused snapshot (%d,%d) changed the node: commit %d->%d log [%d,%d]->[%d,%d]", idx, term, pre.Committed, post.Committed, pre.FirstIndex, pre.LastIndex, post.FirstIndex, post.LastIndex), "sn.refused_changed")
			return
		}
		k.c.stats.probe("snapshot_refused")
		if !member {
			k.c.stats.probe("snapshot_not_in_config")
		}
	}
}

// checkWire looks at the messages queued by this step (C06 hb_clamp, C09
// sn.wire, C16 fc.*, C03 slices on the wire).
func (k *Checker) checkWire(n *Node, pre, post *raft.VerifState, ctx *callCtx) {
	if ctx.what == "Ready" {
		return
	}
	var fresh []*pb.Message
	if len(post.Msgs) > len(pre.Msgs) {
		fresh = post.Msgs[len(pre.Msgs):]
	} else if len(post.Msgs) > 0 && len(pre.Msgs) > 0 && &post.Msgs[0] != &pre.Msgs[0] {
		fresh = post.Msgs
	}
	x := k.nc[n.id]
	// maintain the set of followers with a pending snapshot transfer
	if !isLeader(post) || !isLeader(pre) || pre.Term != post.Term {
		if len(x.snapPending) > 0 {
			x.snapPending = map[uint64]bool{}
		}
	}
	if x.snapPending == nil {
		x.snapPending = map[uint64]bool{}
	}
	if ctx.what == "ReportSnapshot" || ctx.what == "ApplyConfChange" {
		// the outcome was reported (for which peer is not visible here: clear all,
		// which only weakens the oracle), or the membership changed
		x.snapPending = map[uint64]bool{}
	}
	if m := ctx.msg; m != nil && ctx.what == "Step" && m.GetFrom() != n.id && m.GetType() == pb.MsgAppResp && !m.GetReject() {
		// the follower acknowledged something: it is no longer waiting for the
		// snapshot (conservatively for any acknowledgement). A rejection or a
		// heartbeat response says nothing about the transfer: it stays pending.
		delete(x.snapPending, m.GetFrom())
	}
	for _, m := range fresh {
		switch m.GetType() {
		case pb.MsgHeartbeat:
			k.count("cm.hb_clamp")
			if pr, ok := post.Progress[m.GetTo()]; ok && isLeader(post) && m.GetCommit() > pr.Match {
				k.report("C06", "cm.hb_clamp", n, fmt.Sprintf("heartbeat to %d carries commit %d beyond its match index %d", m.GetTo(), m.GetCommit(), pr.Match), "")
				return
			}
		case pb.MsgVote, pb.MsgPreVote:
			// C02: votes are granted on the strength of the candidate's claim about
			// its last entry; the claim must not exceed what its log holds
			k.count("el.claim")
			lt, li := x.lastID()
			if m.GetLogTerm() > lt || (m.GetLogTerm() == lt && m.GetIndex() > li) {
				k.report("C02", "el.up_to_date", n, fmt.Sprintf("%s to %d claims a last entry (term=%d, index=%d) beyond the sender's actual last entry (term=%d, index=%d)", m.GetType(), m.GetTo(), m.GetLogTerm(), m.GetIndex(), lt, li), "el.claim")
				return
			}
		case pb.MsgApp:
			k.checkMsgApp(n, x, pre, post, m)
		case pb.MsgSnap:
			k.checkSnapWire(n, post, m)
			if isLeader(post) {
				x.snapPending[m.GetTo()] = true
			}
		}
		if k.c.viol != nil {
			return
		}
	}
	k.checkInflight(n, x, pre, post, fresh)
}

func (k *Checker) checkMsgApp(n *Node, x *nodeChk, pre, post *raft.VerifState, m *pb.Message) {
	ents := m.GetEntries()
	// C16 fc.msgsize
	k.count("fc.msgsize")
	if len(ents) > 1 {
		if sz := raft.VerifEntsSize(ents); sz > n.cfg.MaxSizePerMsg {
			k.report("C16", "fc.msgsize", n, fmt.Sprintf("MsgApp to %d carries %d entries of %d bytes, MaxSizePerMsg is %d", m.GetTo(), len(ents), sz, n.cfg.MaxSizePerMsg), "")
			return
		}
	} else if len(ents) == 1 && raft.VerifEntsSize(ents) > n.cfg.MaxSizePerMsg {
		k.c.stats.probe("single_entry_over_maxsize")
	}
	// C16 fc.snapshot_pending: no append to a follower whose snapshot transfer
	// is still pending (sent, outcome not reported, nothing acknowledged by it since).
	if x.snapPending[m.GetTo()] {
		k.report("C16", "fc.snapshot_pending", n, fmt.Sprintf("MsgApp sent to %d while the snapshot sent to it is still pending (no ReportSnapshot, no acknowledgement from it)", m.GetTo()), "")
		return
	}
	// C16 fc.snapshot_pause
	if p0, ok0 := pre.Progress[m.GetTo()]; ok0 {
		if p1, ok1 := post.Progress[m.GetTo()]; ok1 && p0.State == tracker.StateSnapshot && p1.State == tracker.StateSnapshot && isLeader(pre) && pre.Term == post.Term {
			k.report("C16", "fc.snapshot_pause", n, fmt.Sprintf("MsgApp sent to %d while a snapshot is pending for it", m.GetTo()), "")
			return
		}
	}
	// C03 on the wire: the slice is contiguous, terms non-decreasing and <= the sender's term,
	// and it is anchored at an entry the sender's log holds (the receiver appends
	// the entries to its log on the strength of that anchor).
	k.count("log.wire")
	if t, ok := x.termAt(m.GetIndex()); ok && t != m.GetLogTerm() {
		k.report("C03", "log.wire", n, fmt.Sprintf("MsgApp to %d is anchored at (index=%d, term=%d) but the sender's log holds term %d at that index", m.GetTo(), m.GetIndex(), m.GetLogTerm(), t), "log.wire.anchor")
		return
	}
	pt := m.GetLogTerm()
	for i, e := range ents {
		if e.GetIndex() != m.GetIndex()+1+uint64(i) || e.GetTerm() < pt || e.GetTerm() > post.Term {
			k.report("C03", "log.wire", n, fmt.Sprintf("MsgApp to %d: entry %d/%d (index=%d, term=%d) after (index=%d, term=%d) at sender term %d", m.GetTo(), i, len(ents), e.GetIndex(), e.GetTerm(), m.GetIndex()+uint64(i), pt, post.Term), "")
			return
		}
		k.lmCheck(n, "MsgApp", e, pt, true)
		if k.c.viol != nil {
			return
		}
		pt = e.GetTerm()
	}
	if m.GetCommit() > post.Committed {
		k.report("C06", "cm.wire", n, fmt.Sprintf("MsgApp carries commit %d beyond the sender's commit %d", m.GetCommit(), post.Committed), "")
	}
}

// checkSnapWire is C09 sn.wire.
func (k *Checker) checkSnapWire(n *Node, post *raft.VerifState, m *pb.Message) {
	k.count("sn.wire")
	k.c.stats.probe("snapshot_sent")
	s := m.GetSnapshot()
	idx, term := s.GetMetadata().GetIndex(), s.GetMetadata().GetTerm()
	if idx > k.gMax() {
		k.report("C09", "sn.wire", n, fmt.Sprintf("snapshot sent at index %d beyond everything committed (%d)", idx, k.gMax()), "sn.wire.beyond")
		return
	}
	if idx <= k.gBase {
		return
	}
	g := k.gAt(idx)
	if g.term != term {
		k.report("C09", "sn.wire", n, fmt.Sprintf("snapshot sent at (index=%d, term=%d) but the committed entry there has term %d", idx, term, g.term), "sn.wire.term")
		return
	}
	want := k.confAt(idx)
	got := refConfFromConfState(s.GetMetadata().GetConfState())
	if idx > k.nBoot && !want.Equal(got) {
		k.report("C09", "sn.wire", n, fmt.Sprintf("snapshot at %d carries configuration %s, the committed sequence gives %s", idx, got, want), "sn.wire.conf")
		return
	}
	st, err := decodeAppState(s.GetData(), nil)
	if err != nil || st.Index != idx || st.Chain != g.chain {
		k.report("C09", "sn.wire", n, fmt.Sprintf("snapshot at %d does not describe the committed prefix (decode err=%v)", idx, err), "sn.wire.data")
	}
}

// checkInflight is C16 fc.inflight.
func (k *Checker) checkInflight(n *Node, x *nodeChk, pre, post *raft.VerifState, fresh []*pb.Message) {
	if !isLeader(post) {
		if len(x.episodes) > 0 {
			x.episodes = map[uint64]*fcEpisode{}
		}
		return
	}
	for _, id := range post.ProgressIDs {
		if id == n.id {
			continue
		}
		pr := post.Progress[id]
		ep := x.episodes[id]
		if pr.State != tracker.StateReplicate {
			delete(x.episodes, id)
			continue
		}
		prePr, hadPre := pre.Progress[id]
		if ep == nil || ep.term != post.Term || ep.inc != n.inc || !hadPre || prePr.State != tracker.StateReplicate || !isLeader(pre) {
			// A new streaming episode starts in this step; only messages sent
			// after the follower entered StateReplicate count, which we cannot
			// separate within one step, so start counting from the next step.
			x.episodes[id] = &fcEpisode{term: post.Term, inc: n.inc}
			continue
		}
		for _, m := range fresh {
			if m.GetType() == pb.MsgApp && m.GetTo() == id && len(m.GetEntries()) > 0 {
				var b uint64
				for _, e := range m.GetEntries() {
					b += uint64(len(e.GetData()))
				}
				ep.sent = append(ep.sent, fcSent{last: m.GetIndex() + uint64(len(m.GetEntries())), bytes: b})
			}
		}
		// drop what the follower is known to have
		j := 0
		for _, s := range ep.sent {
			if s.last > pr.Match {
				ep.sent[j] = s
				j++
			}
		}
		ep.sent = ep.sent[:j]
		k.count("fc.inflight")
		if len(ep.sent) > n.cfg.MaxInflightMsgs {
			k.report("C16", "fc.inflight", n, fmt.Sprintf("%d entry-bearing MsgApp outstanding to %d (match %d), MaxInflightMsgs is %d", len(ep.sent), id, pr.Match, n.cfg.MaxInflightMsgs), "fc.inflight.count")
			return
		}
		if len(ep.sent) == n.cfg.MaxInflightMsgs {
			k.c.stats.probe("inflight_full")
		}
		if mb := n.cfg.MaxInflightBytes; mb != 0 && len(ep.sent) > 1 {
			var sum uint64
			for _, s := range ep.sent[:len(ep.sent)-1] {
				sum += s.bytes
			}
			if sum >= mb {
				k.report("C16", "fc.inflight", n, fmt.Sprintf("%d bytes outstanding to %d before the last message, MaxInflightBytes is %d", sum, id, mb), "fc.inflight.bytes")
				return
			}
			if sum+ep.sent[len(ep.sent)-1].bytes >= mb {
				k.c.stats.probe("inflight_bytes_crossed")
			}
		}
	}
}

// checkUncommitted is C16 fc.uncommitted. A = payload bytes of proposals this
// leadership has accepted, R = payload bytes of the entries whose application
// has been acknowledged to it during this leadership. raft's own estimate of
// the uncommitted tail is at least A-R (it only ever subtracts what was
// applied, saturating at zero), so: a non-empty proposal accepted while
// A-R > 0 satisfies (A-R) + size <= MaxUncommittedEntriesSize.
func (k *Checker) checkUncommitted(n *Node, pre, post *raft.VerifState, ctx *callCtx) {
	x := k.nc[n.id]
	if !isLeader(pre) || !isLeader(post) || pre.Term != post.Term {
		x.ucAccepted, x.ucApplied, x.ucTerm = 0, 0, post.Term
		return
	}
	m := ctx.msg
	// application acknowledgements
	if ctx.what == "Advance" {
		// counted in preCall (Advance clears the messages it steps)
		return
	}
	if m != nil && m.GetType() == pb.MsgStorageApplyResp {
		for _, e := range m.GetEntries() {
			x.ucApplied += uint64(len(e.GetData()))
		}
		return
	}
	if m == nil || m.GetType() != pb.MsgProp {
		return
	}
	lim := n.cfg.MaxUncommittedEntriesSize
	var size uint64
	for _, e := range m.GetEntries() {
		size += uint64(len(e.GetData()))
	}
	accepted := ctx.err == nil && post.LastIndex > pre.LastIndex
	if !accepted {
		if ctx.err == raft.ErrProposalDropped && size > 0 && pre.LeadTransferee == 0 {
			k.c.stats.probe("proposal_dropped_at_leader")
		}
		return
	}
	if lim != 0 {
		k.count("fc.uncommitted")
		if x.ucAccepted > x.ucApplied && size > 0 {
			out := x.ucAccepted - x.ucApplied
			if out+size > lim {
				k.report("C16", "fc.uncommitted", n, fmt.Sprintf("accepted a %d byte proposal while at least %d accepted bytes are not yet applied, MaxUncommittedEntriesSize is %d", size, out, lim), "fc.uncommitted.accept")
				return
			}
		}
	}
	x.ucAccepted += size
}

func (k *Checker) checkConfAgainstRef(n *Node, st *raft.VerifState, index uint64, where string) {
	if index <= k.nBoot && k.c.rc.Bootstrap {
		return
	}
	if index > k.gMax() || index < k.gBase {
		return
	}
	k.count("mc.fold")
	want := k.confAt(index)
	got := refConfFromLists(st.Voters, st.VotersOutgoing, st.Learners, st.LearnersNext, st.AutoLeave)
	if !want.Equal(got) {
		k.report("C10", "mc.fold", n, fmt.Sprintf("%s: configuration as of index %d is %s, folding the committed changes gives %s", where, index, got, want), "mc.fold."+where)
	}
}

type confVersion struct {
	tick             uint64
	voters, outgoing []uint64
}

func equalIDs(a, b []uint64) bool {
	if len(a) != len(b) {
		return false
	}
	for i := range a {
		if a[i] != b[i] {
			return false
		}
	}
	return true
}
