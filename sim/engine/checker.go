package engine

import (
	"fmt"

	raft "go.etcd.io/raft/v3"
	pb "go.etcd.io/raft/v3/raftpb"
)

// gEntry is one row of the global committed table G.
type gEntry struct {
	term       uint64
	typ        pb.EntryType
	hash       uint64
	commitTerm uint64
	chain      uint64 // state-machine hash chain after applying this index
	entry      *pb.Entry
}

type lmKey struct{ index, term uint64 }
type lmVal struct {
	hash      uint64
	prevTerm  uint64
	prevKnown bool
}

type voteKey struct{ voter, term uint64 }

type leaderRec struct {
	node uint64
	inc  int
}

type confRec struct {
	index uint64
	conf  *RefConf
	dec   ccDecision
}

// nodeChk is the per-node oracle state.
type nodeChk struct {
	// logical log cache (combined stable+unstable view)
	log      []*pb.Entry
	logFirst uint64
	prevTerm uint64 // term at logFirst-1
	prevOK   bool
	logGen   uint64 // bumped whenever the log content changed

	// C07
	haveHS           bool
	hsTerm, hsVote   uint64
	hsCommit         uint64
	emTerm, emVote   uint64 // last emitted hard state
	emCommit         uint64
	haveEm           bool
	restartTerm      uint64
	exTerm, exVote   uint64 // hard state the node has exposed last (or started with)
	exCommit         uint64
	durTerm, durVote uint64
	durCommit        uint64
	maxSentVoteTerm  uint64
	maxSentVoteCand  uint64

	// C08
	nextApply       uint64
	applyOutSizes   []uint64 // sizes of batches handed out and not yet acknowledged
	snapOutstanding bool
	snapBaseIdx     uint64   // C09: the latest snapshot installed through Step(MsgSnap) in this incarnation
	snapBaseConf    *RefConf // ... and its membership
	preSnapHad      bool     // C09: before the current Step(MsgSnap) the log held the snapshot's (index, term)

	// C18
	emitted   *absLog
	handedOut []handedOut

	// C16
	episodes              map[uint64]*fcEpisode
	ucAccepted, ucApplied uint64
	ucTerm                uint64
	snapPending           map[uint64]bool

	// C17
	lastHeardTick uint64
	lastHeardLead uint64
	lastHeardTerm uint64
	heardValid    bool
	leaderSince   uint64 // tick at which current leadership started
	leaderTerm    uint64
	isLeader      bool
	heardTick     map[uint64]uint64
	lastDisqTick  uint64
	confVersions  []confVersion

	// C11
	readRecv     map[string]int    // ctx -> earliest step at which this leader received the request (this leadership)
	hbResp       map[uint64]int    // peer -> last step a MsgHeartbeatResp from it was delivered
	issued       map[string]uint64 // ctx -> reported commit at (earliest) issue
	selfVoteTerm uint64            // term for which the own vote has been recorded durably

	// C20
	tagCount map[int]int

	// C06 cm.match_sound
	lastMatch     map[uint64]uint64
	lastMatchTerm uint64
}

// handedOut is a write group as it was when raft handed it out (ents) and
// the live slice the application holds (live).
type handedOut struct {
	first uint64
	ents  []*pb.Entry
	live  []*pb.Entry
}

type fcEpisode struct {
	term uint64
	inc  int
	sent []fcSent
}
type fcSent struct {
	last  uint64
	bytes uint64
}

// Checker holds every oracle. All oracles run in every execution; the first
// violation of any property stops the run (later ones would be consequences).
type Checker struct {
	c   *Cluster
	opt Options
	nc  map[uint64]*nodeChk

	// G
	gBase           uint64
	g               []gEntry // g[i] is index gBase+1+i
	leaderCommitMax uint64
	baseChain       uint64

	// refconf over the committed sequence
	confInit *RefConf
	confs    []confRec
	nBoot    uint64 // number of Bootstrap entries (exempt from some checks)

	lm        map[lmKey]lmVal
	leaders   map[uint64]leaderRec
	sentVotes map[voteKey]uint64
	preVotes  map[voteKey]map[uint64]bool // (candidate, term) -> voters that handed out a grant
	appChain  map[uint64]uint64

	reportedCommit uint64

	// proposals
	proposed      map[int][]byte // tag -> payload
	propState     map[int]*propRec
	ccProposed    map[string][]byte // context -> marshalled data
	ccType        map[string]pb.EntryType
	ccDropped     map[string]bool // context -> the proposing call returned an error
	neutralBudget map[uint64]int  // term -> conf-change proposals delivered to that term's leader
	emptyByTerm   map[uint64]map[uint64]bool

	toolErr     string
	foreignSeen int
	lin         *linRecorder
}

type propRec struct {
	calls      int
	dropped    int
	unknown    int // calls whose outcome was not reported to the caller (E3)
	deliveries int
	atLeaderOK bool
	batch      []int
}

func newChecker(c *Cluster, opt Options) *Checker {
	return &Checker{
		c: c, opt: opt,
		nc:            map[uint64]*nodeChk{},
		lm:            map[lmKey]lmVal{},
		leaders:       map[uint64]leaderRec{},
		sentVotes:     map[voteKey]uint64{},
		preVotes:      map[voteKey]map[uint64]bool{},
		appChain:      map[uint64]uint64{},
		proposed:      map[int][]byte{},
		propState:     map[int]*propRec{},
		ccProposed:    map[string][]byte{},
		ccType:        map[string]pb.EntryType{},
		ccDropped:     map[string]bool{},
		neutralBudget: map[uint64]int{},
		emptyByTerm:   map[uint64]map[uint64]bool{},
	}
}

func (k *Checker) init() {
	c := k.c
	rc := &c.rc
	if rc.Bootstrap {
		k.gBase = 0
		k.confInit = newRefConf()
		k.nBoot = uint64(len(rc.Voters))
		k.leaderCommitMax = k.nBoot
	} else {
		k.gBase = rc.BaseIndex
		k.confInit = refConfFromLists(rc.Voters, nil, rc.Learners, nil, false)
		k.leaderCommitMax = rc.BaseIndex
	}
	k.reportedCommit = k.gBase
	for _, id := range c.ids {
		k.nc[id] = &nodeChk{episodes: map[uint64]*fcEpisode{}, heardTick: map[uint64]uint64{},
			readRecv: map[string]int{}, hbResp: map[uint64]int{}, issued: map[string]uint64{}, tagCount: map[int]int{}}
	}
	k.lin = newLinRecorder(c.rc.NKeys)
}

func (k *Checker) gMax() uint64 { return k.gBase + uint64(len(k.g)) }

func (k *Checker) gAt(i uint64) *gEntry {
	if i <= k.gBase || i > k.gMax() {
		return nil
	}
	return &k.g[i-k.gBase-1]
}

// confAt is the reference configuration after applying index i.
func (k *Checker) confAt(i uint64) *RefConf {
	cur := k.confInit
	for j := range k.confs {
		if k.confs[j].index <= i {
			cur = k.confs[j].conf
		} else {
			break
		}
	}
	return cur
}

func (k *Checker) count(oracle string) { k.c.stats.OracleEvals[oracle]++ }

// report records a violation. Only the first one is kept; it stops the run.
func (k *Checker) report(prop, oracle string, n *Node, msg, sig string) {
	if k.c.viol != nil {
		return
	}
	v := &Violation{Property: prop, Oracle: oracle, Msg: msg, Step: k.c.step, Sig: sig}
	if n != nil {
		v.Node = n.id
	}
	if v.Sig == "" {
		v.Sig = oracle
	}
	// A check reports its own property. A violation of another property is
	// recorded (first one per run) and the run goes on: on a tree that breaks
	// that other property, the property under check may break later in the
	// same execution, and that is what this check has to see.
	if k.opt.Target == "C05" && n != nil && n.inc > 0 && (prop == "C01" || prop == "C02" || prop == "C03" || prop == "C04") {
		// C05, last sentence: a crash followed by a restart from storage never
		// invalidates C01-C04. The node at which the violation shows has been
		// restarted from its durable state at least once.
		v.Msg = fmt.Sprintf("after %d restart(s) from storage: %s/%s: %s", n.inc, prop, oracle, msg)
		v.Property, v.Oracle = "C05", "dur.consequence"
		v.Sig = "dur.consequence:" + v.Sig
		prop = "C05"
	}
	if t := k.opt.Target; t != "" && prop != t && prop != "TOOL" {
		if k.c.foreign == nil {
			k.c.foreign = v
		}
		k.foreignSeen++
		return
	}
	k.c.viol = v
}

// report2 reports an event that contradicts two statements: under (propB,
// oracleB) when that is the property under check, under (propA, oracleA)
// otherwise.
func (k *Checker) report2(propA, oracleA, propB, oracleB string, n *Node, msg, sig string) {
	if k.opt.Target == propB {
		if sig != "" {
			sig = oracleB + ":" + sig
		}
		k.report(propB, oracleB, n, msg, sig)
		return
	}
	k.report(propA, oracleA, n, msg, sig)
}

func (k *Checker) toolError(msg string) {
	if k.toolErr == "" {
		k.toolErr = fmt.Sprintf("step %d: %s", k.c.step, msg)
	}
	// A tool error stops the run without being a violation of any property.
	if k.c.viol == nil {
		k.c.viol = &Violation{Property: "TOOL", Oracle: "tool.error", Msg: msg, Step: k.c.step, Sig: "tool.error"}
	}
}

// ToolError returns a simulator-internal problem, if any.
func (k *Checker) ToolError() string { return k.toolErr }

func (k *Checker) onPanic(n *Node, what, msg, site string) {
	short := msg
	if len(short) > 60 {
		short = short[:60]
	}
	k.report("C14", "panic", n, fmt.Sprintf("panic in %s at %s: %s", what, site, msg), "panic:"+site+":"+digits(short))
}

// digits replaces runs of digits by '#', giving a stable message shape.
func digits(s string) string {
	b := make([]byte, 0, len(s))
	prev := false
	for i := 0; i < len(s); i++ {
		ch := s[i]
		if ch >= '0' && ch <= '9' {
			if !prev {
				b = append(b, '#')
			}
			prev = true
			continue
		}
		prev = false
		b = append(b, ch)
	}
	return string(b)
}

// ---------------------------------------------------------------------------
// lifecycle hooks

func (k *Checker) onStart(n *Node, restart bool) {
	x := k.nc[n.id]
	st := &n.st
	dur := n.disk.dur
	// C18 model of the emitted write groups starts from what is on disk.
	x.emitted = n.disk.written.clone()
	x.log, x.logFirst = nil, 0
	x.haveHS, x.haveEm = false, false
	x.applyOutSizes = nil
	x.handedOut = nil
	x.snapOutstanding = false
	x.snapBaseIdx, x.snapBaseConf = 0, nil
	x.episodes = map[uint64]*fcEpisode{}
	x.ucAccepted, x.ucApplied = 0, 0
	x.snapPending = map[uint64]bool{}
	x.heardValid = false
	x.isLeader = false
	x.heardTick = map[uint64]uint64{}
	x.readRecv = map[string]int{}
	x.hbResp = map[uint64]int{}
	x.selfVoteTerm = 0
	x.nextApply = st.Applied + 1
	x.restartTerm = st.Term
	x.exTerm, x.exVote, x.exCommit = st.Term, st.Vote, st.Committed
	if restart {
		k.count("dur.restart")
		// C07/C05: the node continues from exactly the last persisted hard state.
		if st.Term != dur.hs.GetTerm() || st.Vote != dur.hs.GetVote() || st.Committed != max(dur.hs.GetCommit(), st.FirstIndex-1) {
			k.report("C07", "hs.restart_equal", n, fmt.Sprintf("restarted with (term=%d vote=%d commit=%d), durable hard state is (term=%d vote=%d commit=%d)",
				st.Term, st.Vote, st.Committed, dur.hs.GetTerm(), dur.hs.GetVote(), dur.hs.GetCommit()), "")
			return
		}
		// C02: a vote that was handed to the network is never forgotten.
		if x.maxSentVoteTerm != 0 {
			if st.Term < x.maxSentVoteTerm || (st.Term == x.maxSentVoteTerm && st.Vote != x.maxSentVoteCand) {
				k.report("C02", "el.vote_forgotten", n, fmt.Sprintf("restarted at (term=%d vote=%d) after having granted its vote for term %d to %d",
					st.Term, st.Vote, x.maxSentVoteTerm, x.maxSentVoteCand), "")
				return
			}
		}
		if st.Applied != n.restartApplied && n.restartApplied >= st.FirstIndex-1 {
			k.report("C08", "ap.restart_applied", n, fmt.Sprintf("configured Applied=%d but node reports applied=%d", n.restartApplied, st.Applied), "")
			return
		}
	}
	k.refreshLog(n, st, true)
	if k.c.viol != nil {
		return
	}
	if restart {
		// C05 dur.restart: the logical log equals the durable log.
		if st.LastIndex != dur.last() || st.FirstIndex != dur.first() {
			k.report("C05", "dur.restart_log", n, fmt.Sprintf("restarted with log [%d,%d], durable log is [%d,%d]", st.FirstIndex, st.LastIndex, dur.first(), dur.last()), "")
			return
		}
		for i, e := range x.log {
			de := dur.entry(x.logFirst + uint64(i))
			if de == nil || de.GetTerm() != e.GetTerm() || hashEntry(de) != hashEntry(e) {
				k.report("C05", "dur.restart_log", n, fmt.Sprintf("restarted log differs from durable log at index %d", x.logFirst+uint64(i)), "")
				return
			}
		}
		// C10: the configuration after a restart is the reference configuration
		// as of the applied index.
		k.checkConfAgainstRef(n, st, st.Applied, "restart")
	}
	k.trackState(n, nil, st, &callCtx{what: "start"})
}

func (k *Checker) onCrash(n *Node) {
	x := k.nc[n.id]
	x.isLeader = false
	// Client operations pending at this node are abandoned.
	k.lin.onCrash(n.id)
}

// preCall runs before a RawNode call.
func (k *Checker) preCall(n *Node, what string, m *pb.Message) {
	if what == "Step" && m != nil && m.GetType() == pb.MsgSnap {
		// C09: does the log, before the step, hold the snapshot's (index, term)?
		x := k.nc[n.id]
		md := m.GetSnapshot().GetMetadata()
		t, ok := x.termAt(md.GetIndex())
		x.preSnapHad = ok && t == md.GetTerm()
	}
	if what == "Step" && m != nil && m.GetType() == pb.MsgProp {
		k.noteDeliveredProp(n, &n.st, m)
	}
	if what == "Advance" {
		// The messages raft steps to itself on Advance are local deliveries of
		// promises (self vote, self append ack).
		for _, sm := range n.st.StepsOnAdvance {
			k.onLocalResp(n, sm)
			if sm.GetType() == pb.MsgStorageApplyResp && isLeader(&n.st) {
				x := k.nc[n.id]
				for _, e := range sm.GetEntries() {
					x.ucApplied += uint64(len(e.GetData()))
				}
			}
		}
		x := k.nc[n.id]
		if len(x.applyOutSizes) > 0 {
			x.applyOutSizes = x.applyOutSizes[:0]
		}
		x.snapOutstanding = false
	}
}

// postCall runs after every RawNode call: reads the new state and runs the
// step monitors on (pre, post).
func (k *Checker) postCall(n *Node, ctx *callCtx) {
	if k.c.viol != nil {
		return
	}
	pre := n.st
	var post raft.VerifState
	ok := true
	func() {
		defer func() {
			if r := recover(); r != nil {
				ok = false
				k.report("C18", "lg.view_unreadable", n, fmt.Sprintf("reading the node's state panicked: %v", r), "")
			}
		}()
		post = n.rn.VerifState()
	}()
	if !ok {
		return
	}
	n.st = post
	k.refreshLog(n, &n.st, ctx.what != "Ready")
	if k.c.viol != nil {
		return
	}
	k.trackState(n, &pre, &n.st, ctx)
}

// refreshAfterStorageChange re-reads the node's state after the application
// changed the storage underneath raft (compaction), so that the next step's
// "pre" state is accurate.
func (k *Checker) refreshAfterStorageChange(n *Node) {
	if !n.up || n.rn == nil || k.c.viol != nil {
		return
	}
	ok := k.c.guard(n, "VerifState", func() error { n.st = n.rn.VerifState(); return nil })
	if !ok {
		n.down()
		return
	}
	k.refreshLog(n, &n.st, true)
}

// afterAction runs once per executed action.
func (k *Checker) afterAction(a Action, ok bool) {
	c := k.c
	if c.step%8 == 0 {
		c.stats.StateHashes[k.abstractState()] = struct{}{}
	}
}

// abstractState hashes a coarse abstraction of the global state (reach measure).
func (k *Checker) abstractState() uint64 {
	c := k.c
	h := uint64(0x5eed)
	var minTerm uint64 = ^uint64(0)
	for _, id := range c.ids {
		n := c.nodes[id]
		if n.up && n.st.Term < minTerm {
			minTerm = n.st.Term
		}
	}
	for _, id := range c.ids {
		n := c.nodes[id]
		if !n.up {
			h = Mix(h, 0xdead)
			continue
		}
		st := &n.st
		bucket := func(v uint64) uint64 {
			switch {
			case v == 0:
				return 0
			case v == 1:
				return 1
			case v < 4:
				return 2
			case v < 16:
				return 3
			}
			return 4
		}
		tr := st.Term - minTerm
		if tr > 3 {
			tr = 3
		}
		joint := uint64(0)
		if len(st.VotersOutgoing) > 0 {
			joint = 1
		}
		unst := uint64(0)
		if len(st.UnstableEntries) > 0 {
			unst = 1
		}
		if st.UnstableSnapshot != nil {
			unst |= 2
		}
		h = Mix(h, uint64(st.State)|tr<<4|bucket(st.LastIndex-st.Committed)<<8|bucket(st.Committed-st.Applied)<<12|unst<<16|joint<<20|uint64(len(st.Voters))<<24)
	}
	nmsg := 0
	for _, l := range c.links {
		nmsg += len(l)
	}
	b := nmsg
	if b > 8 {
		b = 8 + b/16
	}
	return Mix(h, uint64(b))
}
