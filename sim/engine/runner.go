package engine

import (
	"fmt"
	"os"
	"time"

	"github.com/anishathalye/porcupine"
)

// RunResult is the outcome of one simulated run.
type RunResult struct {
	RunIndex  int
	RunSeed   uint64
	Config    RunConfig
	Violation *Violation
	Foreign   *Violation
	ToolError string
	Digest    string
	Stats     *Stats
	Heal      *HealResult
	Trace     []Action
	LinOps    int
	LinResult string
	HealAt    int // index in Trace of the HealPhase marker (-1: none)
	SimTicks  int
	ReadyLog  []uint64
	ETLog     []int32
	Final     string
}

// RunSeedFor derives the seed of run i of a batch; it depends on nothing else.
func RunSeedFor(verifSeed uint64, profile string, i int) uint64 {
	return Mix(Mix(verifSeed, hashBytes([]byte(profile))), uint64(i)+1)
}

// finalChecks runs the history checks at the end of a run.
func finalChecks(c *Cluster, res *RunResult) {
	if c.viol != nil {
		return
	}
	if c.chk.safeReads() {
		r, n, desc := c.chk.lin.check(c.step, 10*time.Second)
		res.LinOps = n
		switch r {
		case porcupine.Ok:
			res.LinResult = "ok"
		case porcupine.Unknown:
			res.LinResult = "unknown"
			c.stats.Inconclusive++
		case porcupine.Illegal:
			res.LinResult = "illegal"
			c.chk.report("C11", "ri.linearizable", nil, "client history on the register file is not linearizable: "+desc, "ri.linearizable")
		}
		c.stats.OracleEvals["ri.linearizable"]++
	}
}

// RunOne executes run i: chaos phase, heal phase, history checks.
func RunOne(p Profile, verifSeed uint64, i int, opt Options) *RunResult {
	seed := RunSeedFor(verifSeed, p.Name, i)
	g := NewGen(seed, p, opt)
	c := g.c
	res := &RunResult{RunIndex: i, RunSeed: seed, Config: c.rc, HealAt: -1}
	g.RunChaos()
	if c.viol == nil && c.ss == nil {
		if c.vg != nil {
			res.HealAt = len(c.trace)
			if !RunFollowerClose(c) && c.viol == nil && os.Getenv("VERIF_CLOSEDEBUG") != "" {
				res.Final = "close did not catch up\n" + c.CloseDebug()
			}
		} else {
			res.HealAt = len(c.trace)
			res.Heal = RunHeal(c, Mix(seed, 0x4ea1))
		}
	}
	finalChecks(c, res)
	fill(c, res)
	return res
}

func fill(c *Cluster, res *RunResult) {
	res.Violation = c.viol
	res.Foreign = c.foreign
	res.ToolError = c.chk.toolErr
	res.Digest = c.Digest()
	res.Stats = c.stats
	res.Trace = c.trace
	res.SimTicks = c.stats.Ticks
	res.ReadyLog = c.readyLog
	res.ETLog = c.etLog
	if c.viol != nil || c.opt.Debug {
		res.Final += c.DebugState()
		if rl := c.RaftLog(); len(rl) > 0 {
			if len(rl) > 150 {
				rl = rl[len(rl)-150:]
			}
			for _, l := range rl {
				res.Final += l + "\n"
			}
		}
	}
	if seam.Stray != 0 && res.ToolError == "" {
		res.ToolError = fmt.Sprintf("randomness was drawn outside a node context %d times", seam.Stray)
	}
	// E3: end the run loop goroutines of the nodes that are still running
	for _, id := range c.ids {
		if n := c.nodes[id]; n.drv != nil {
			n.down()
		}
	}
}

// Replay executes an action list. If the list ends with the HealPhase marker
// the deterministic heal procedure is run from there (C15 replays); otherwise
// the list is executed as is.
func Replay(rc RunConfig, actions []Action, opt Options) *RunResult {
	c := NewCluster(rc, opt)
	res := &RunResult{RunSeed: rc.Seed, Config: rc, HealAt: -1}
	for i, a := range actions {
		if c.viol != nil {
			break
		}
		if a.K == AHealPhase && i == len(actions)-1 {
			res.HealAt = i
			res.Heal = RunHeal(c, Mix(rc.Seed, 0x4ea1))
			break
		}
		if a.K == AVClosePhase && i == len(actions)-1 {
			res.HealAt = i
			RunFollowerClose(c)
			break
		}
		c.Do(a)
	}
	finalChecks(c, res)
	fill(c, res)
	return res
}

// DeterminismCheck is C19 dt.replay: the recorded call sequence of a run is
// executed again on fresh nodes (equal storage, equal configuration, equal
// election-timeout draws) and every Ready must be byte-identical. Go
// randomises map iteration per iteration, so an output that depends on map
// order differs between the two executions with high probability.
func DeterminismCheck(first *RunResult, opt Options) *Violation {
	// The second execution reads different random bytes; the election-timeout
	// draws of the first one are imposed on it (the statement's "with the same
	// election-timeout draws"). Any other dependence on randomness, on state
	// shared between instances in one process, or on map order shows as a
	// difference.
	opt.RandSalt = 0x5a17c0de
	opt.PinET = append(make([]int32, 0, len(first.ETLog)), first.ETLog...)
	second := Replay(first.Config, first.Trace, opt)
	a, b := first.ReadyLog, second.ReadyLog
	n := min(len(a), len(b))
	for i := 0; i < n; i++ {
		if a[i] != b[i] {
			return &Violation{Property: "C19", Oracle: "dt.replay", Sig: "dt.replay", Step: i,
				Msg: fmt.Sprintf("Ready number %d differs between two executions of the same call sequence (of %d / %d Readys)", i+1, len(a), len(b))}
		}
	}
	if len(a) != len(b) || first.Digest != second.Digest {
		return &Violation{Property: "C19", Oracle: "dt.replay", Sig: "dt.replay", Step: n,
			Msg: fmt.Sprintf("two executions of the same call sequence diverge after %d identical Readys (digests %s / %s)", n, first.Digest, second.Digest)}
	}
	return nil
}
