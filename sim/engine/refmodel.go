package engine

import (
	"fmt"
	"sort"

	pb "go.etcd.io/raft/v3/raftpb"
	"google.golang.org/protobuf/proto"
)

// ---------------------------------------------------------------------------
// refquorum: majority / joint decisions, independent of quorum/.

// maj reports whether a strict majority of set satisfies p. The empty set
// imposes no constraint.
func maj(set []uint64, p func(uint64) bool) bool {
	if len(set) == 0 {
		return true
	}
	n := 0
	for _, v := range set {
		if p(v) {
			n++
		}
	}
	return n >= len(set)/2+1
}

// jointMaj is the joint decision over both voter sets.
func jointMaj(in, out []uint64, p func(uint64) bool) bool {
	return maj(in, p) && maj(out, p)
}

// ---------------------------------------------------------------------------
// refconf: the configuration algebra, independent of confchange/.

// RefConf is a configuration (incoming voters, outgoing voters, learners,
// staged learners, auto-leave).
type RefConf struct {
	I, O, L, LN map[uint64]bool
	Auto        bool
}

func newRefConf() *RefConf {
	return &RefConf{I: map[uint64]bool{}, O: map[uint64]bool{}, L: map[uint64]bool{}, LN: map[uint64]bool{}}
}

func cloneSet(m map[uint64]bool) map[uint64]bool {
	c := make(map[uint64]bool, len(m))
	for k := range m {
		c[k] = true
	}
	return c
}

func (c *RefConf) Clone() *RefConf {
	return &RefConf{I: cloneSet(c.I), O: cloneSet(c.O), L: cloneSet(c.L), LN: cloneSet(c.LN), Auto: c.Auto}
}

func sortedKeys(m map[uint64]bool) []uint64 {
	ks := make([]uint64, 0, len(m))
	for k := range m {
		ks = append(ks, k)
	}
	sort.Slice(ks, func(i, j int) bool { return ks[i] < ks[j] })
	return ks
}

func (c *RefConf) String() string {
	return fmt.Sprintf("I=%v O=%v L=%v LN=%v auto=%v", sortedKeys(c.I), sortedKeys(c.O), sortedKeys(c.L), sortedKeys(c.LN), c.Auto)
}

func (c *RefConf) Joint() bool { return len(c.O) > 0 }

// Members is everyone with a role.
func (c *RefConf) Members() map[uint64]bool {
	m := map[uint64]bool{}
	for _, s := range []map[uint64]bool{c.I, c.O, c.L, c.LN} {
		for k := range s {
			m[k] = true
		}
	}
	return m
}

func refConfFromConfState(cs *pb.ConfState) *RefConf {
	c := newRefConf()
	for _, v := range cs.GetVoters() {
		c.I[v] = true
	}
	for _, v := range cs.GetVotersOutgoing() {
		c.O[v] = true
	}
	for _, v := range cs.GetLearners() {
		c.L[v] = true
	}
	for _, v := range cs.GetLearnersNext() {
		c.LN[v] = true
	}
	c.Auto = cs.GetAutoLeave()
	return c
}

// ConfState renders the configuration as a raftpb.ConfState (ids ascending).
func (c *RefConf) ConfState() *pb.ConfState {
	return &pb.ConfState{Voters: sortedKeys(c.I), VotersOutgoing: sortedKeys(c.O), Learners: sortedKeys(c.L), LearnersNext: sortedKeys(c.LN), AutoLeave: new(c.Auto)}
}

func refConfFromLists(voters, outgoing, learners, learnersNext []uint64, auto bool) *RefConf {
	c := newRefConf()
	for _, v := range voters {
		c.I[v] = true
	}
	for _, v := range outgoing {
		c.O[v] = true
	}
	for _, v := range learners {
		c.L[v] = true
	}
	for _, v := range learnersNext {
		c.LN[v] = true
	}
	c.Auto = auto
	return c
}

func setEq(a, b map[uint64]bool) bool {
	if len(a) != len(b) {
		return false
	}
	for k := range a {
		if !b[k] {
			return false
		}
	}
	return true
}

func (c *RefConf) Equal(d *RefConf) bool {
	return setEq(c.I, d.I) && setEq(c.O, d.O) && setEq(c.L, d.L) && setEq(c.LN, d.LN) && c.Auto == d.Auto
}

func (c *RefConf) single(ch *pb.ConfChangeSingle) {
	v := ch.GetNodeId()
	if v == 0 {
		return
	}
	switch ch.GetType() {
	case pb.ConfChangeAddNode:
		c.I[v] = true
		delete(c.L, v)
		delete(c.LN, v)
	case pb.ConfChangeAddLearnerNode:
		if c.L[v] {
			return
		}
		delete(c.I, v)
		delete(c.L, v)
		delete(c.LN, v)
		if c.O[v] {
			c.LN[v] = true
		} else {
			c.L[v] = true
		}
	case pb.ConfChangeRemoveNode:
		delete(c.I, v)
		delete(c.L, v)
		delete(c.LN, v)
	case pb.ConfChangeUpdateNode:
	}
}

// refChangeKind classifies a V2 change.
type refChangeKind int

const (
	refSimple refChangeKind = iota
	refEnterJoint
	refLeaveJoint
)

func refKind(cc *pb.ConfChangeV2) refChangeKind {
	if cc.GetTransition() == pb.ConfChangeTransitionAuto && len(cc.GetChanges()) == 0 {
		return refLeaveJoint
	}
	if cc.GetTransition() != pb.ConfChangeTransitionAuto || len(cc.GetChanges()) > 1 {
		return refEnterJoint
	}
	return refSimple
}

// Apply returns the configuration after cc, or an error when the change is
// not applicable to c (raft panics on those at apply time; a contract-following
// application must not let them through).
func (c *RefConf) Apply(cc *pb.ConfChangeV2) (*RefConf, error) {
	n := c.Clone()
	switch refKind(cc) {
	case refLeaveJoint:
		if !c.Joint() {
			return nil, fmt.Errorf("leave-joint on non-joint config")
		}
		for k := range n.LN {
			n.L[k] = true
		}
		n.LN = map[uint64]bool{}
		n.O = map[uint64]bool{}
		n.Auto = false
	case refEnterJoint:
		if c.Joint() {
			return nil, fmt.Errorf("enter-joint on joint config")
		}
		if len(c.I) == 0 {
			return nil, fmt.Errorf("enter-joint on empty config")
		}
		n.O = cloneSet(c.I)
		for _, ch := range cc.GetChanges() {
			n.single(ch)
		}
		n.Auto = cc.GetTransition() == pb.ConfChangeTransitionAuto || cc.GetTransition() == pb.ConfChangeTransitionJointImplicit
	case refSimple:
		if c.Joint() {
			return nil, fmt.Errorf("simple change on joint config")
		}
		for _, ch := range cc.GetChanges() {
			n.single(ch)
		}
		// A simple change may alter the voter set by at most one.
		diff := 0
		for k := range n.I {
			if !c.I[k] {
				diff++
			}
		}
		for k := range c.I {
			if !n.I[k] {
				diff++
			}
		}
		if diff > 1 {
			return nil, fmt.Errorf("simple change alters more than one voter")
		}
	}
	if len(n.I) == 0 {
		return nil, fmt.Errorf("removed all voters")
	}
	return n, nil
}

// decodeCC decodes a conf-change entry into V2 form. A nil/empty payload is
// the zero ConfChangeV2 (leave joint).
func decodeCC(e *pb.Entry) (*pb.ConfChangeV2, pb.ConfChangeI, error) {
	switch e.GetType() {
	case pb.EntryConfChange:
		cc := &pb.ConfChange{}
		if err := proto.Unmarshal(e.GetData(), cc); err != nil {
			return nil, nil, err
		}
		return cc.AsV2(), cc, nil
	case pb.EntryConfChangeV2:
		cc := &pb.ConfChangeV2{}
		if err := proto.Unmarshal(e.GetData(), cc); err != nil {
			return nil, nil, err
		}
		return cc, cc, nil
	}
	return nil, nil, fmt.Errorf("not a conf change")
}

// zeroIDs is the documented way to cancel a change at apply time.
func zeroIDs(cc *pb.ConfChangeV2) *pb.ConfChangeV2 {
	out := &pb.ConfChangeV2{Transition: cc.Transition, Context: cc.Context}
	for _, ch := range cc.GetChanges() {
		out.Changes = append(out.Changes, &pb.ConfChangeSingle{Type: ch.Type, NodeId: new(uint64(0))})
	}
	return out
}

// appDecide is the state machine's deterministic decision for a committed
// conf-change entry against its current membership: apply as is, apply with
// node ids zeroed (cancelled), or skip the call entirely (the change is not
// applicable in any form, e.g. leave-joint while not joint).
type ccDecision int

const (
	ccApply ccDecision = iota
	ccCancel
	ccSkip
)

func appDecide(cur *RefConf, cc *pb.ConfChangeV2) (ccDecision, *RefConf) {
	if n, err := cur.Apply(cc); err == nil {
		return ccApply, n
	}
	// "ApplyConfChange must be called one way or the other" (README step 3):
	// the only way to cancel is to zero the node ids. If even the zeroed change
	// is not applicable to the current membership the call is still made (raft
	// then has no way to proceed; that would be a C14 finding).
	z := zeroIDs(cc)
	if n, err := cur.Apply(z); err == nil {
		return ccCancel, n
	}
	return ccCancel, cur
}

// ---------------------------------------------------------------------------
// abstract log: list of entries with a compacted prefix. Used as the durable
// disk image and as the reference for the storage views.

type absLog struct {
	// base is the compaction point: entries with index <= baseIndex are gone.
	baseIndex, baseTerm uint64
	ents                []*pb.Entry // ents[i] has index baseIndex+1+i
	snap                *pb.Snapshot
	hs                  *pb.HardState
}

func newAbsLog() *absLog { return &absLog{} }

func (l *absLog) clone() *absLog {
	c := *l
	c.ents = append([]*pb.Entry(nil), l.ents...)
	return &c
}

func (l *absLog) first() uint64 { return l.baseIndex + 1 }
func (l *absLog) last() uint64  { return l.baseIndex + uint64(len(l.ents)) }
func (l *absLog) snapIndex() uint64 {
	return l.snap.GetMetadata().GetIndex()
}

// term returns the term at i and whether it is known.
func (l *absLog) term(i uint64) (uint64, bool) {
	if i == l.baseIndex {
		return l.baseTerm, true
	}
	if i < l.baseIndex || i > l.last() {
		return 0, false
	}
	return l.ents[i-l.baseIndex-1].GetTerm(), true
}

func (l *absLog) entry(i uint64) *pb.Entry {
	if i <= l.baseIndex || i > l.last() {
		return nil
	}
	return l.ents[i-l.baseIndex-1]
}

// holds reports whether the log durably covers (i, term): the entry is there,
// or it is the compaction point / at or below the snapshot.
func (l *absLog) covers(i uint64) bool {
	return i <= l.last() || i <= l.snapIndex()
}

func (l *absLog) append(ents []*pb.Entry) {
	if len(ents) == 0 {
		return
	}
	first := ents[0].GetIndex()
	lastNew := first + uint64(len(ents)) - 1
	if lastNew < l.first() {
		return
	}
	if first < l.first() {
		ents = ents[l.first()-first:]
		first = l.first()
	}
	if first > l.last()+1 {
		panic(fmt.Sprintf("abslog: gap, last=%d append at %d", l.last(), first))
	}
	keep := first - l.first()
	l.ents = append(l.ents[:keep:keep], ents...)
}

func (l *absLog) applySnapshot(s *pb.Snapshot) {
	idx := s.GetMetadata().GetIndex()
	if l.snapIndex() != 0 && l.snapIndex() >= idx {
		return
	}
	l.snap = s
	l.baseIndex, l.baseTerm = idx, s.GetMetadata().GetTerm()
	l.ents = nil
}

func (l *absLog) createSnapshot(s *pb.Snapshot) {
	if s.GetMetadata().GetIndex() <= l.snapIndex() {
		return
	}
	l.snap = s
}

func (l *absLog) compact(to uint64) {
	if to <= l.baseIndex || to > l.last() {
		return
	}
	t, _ := l.term(to)
	l.ents = append([]*pb.Entry(nil), l.ents[to-l.baseIndex:]...)
	l.baseIndex, l.baseTerm = to, t
}
