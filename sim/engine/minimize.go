package engine

import (
	"time"
)

// sameViolation decides whether a shrunk trace still shows the violation we
// are minimising: same property, same oracle signature.
func sameViolation(a, b *Violation) bool {
	return a != nil && b != nil && a.Property == b.Property && a.Sig == b.Sig
}

// Minimize shrinks an action list while the same violation persists. The list
// may end with the HealPhase marker (C15): the marker is kept and only the
// chaos prefix is shrunk. It returns the minimised list and its result.
func Minimize(rc RunConfig, actions []Action, target *Violation, opt Options, budget time.Duration) ([]Action, *RunResult, int) {
	deadline := time.Now().Add(budget)
	tests := 0
	var suffix []Action
	body := actions
	if n := len(actions); n > 0 && (actions[n-1].K == AHealPhase || actions[n-1].K == AVClosePhase) {
		suffix = actions[n-1:]
		body = actions[:n-1]
	}
	var best *RunResult
	test := func(cand []Action) bool {
		if time.Now().After(deadline) {
			return false
		}
		tests++
		full := cand
		if suffix != nil {
			full = append(append([]Action(nil), cand...), suffix...)
		}
		r := Replay(rc, full, opt)
		if sameViolation(r.Violation, target) {
			best = r
			return true
		}
		return false
	}
	cur := append([]Action(nil), body...)
	// 1. truncate after the failing step
	if suffix == nil && target.Step > 0 && target.Step < len(cur) {
		if test(cur[:target.Step]) {
			cur = cur[:target.Step]
		}
	}
	if best == nil {
		if !test(cur) {
			return actions, nil, tests
		}
	}
	// 1b. coarse passes: drop all actions of one kind, then all actions that
	// involve one node, when the violation survives that.
	for k := ActKind(0); k < numActKinds && time.Now().Before(deadline); k++ {
		var cand []Action
		for _, a := range cur {
			if a.K != k {
				cand = append(cand, a)
			}
		}
		if len(cand) < len(cur) && len(cand) > 0 && test(cand) {
			cur = cand
		}
	}
	for _, nc := range rc.Nodes {
		if !time.Now().Before(deadline) {
			break
		}
		var cand []Action
		for _, a := range cur {
			if a.N == nc.ID || ((a.K == ADeliver || a.K == ADrop || a.K == ATransfer || a.K == AUnreachable || a.K == ASnapReport) && a.M == nc.ID) {
				continue
			}
			cand = append(cand, a)
		}
		if len(cand) < len(cur) && len(cand) > 0 && test(cand) {
			cur = cand
		}
	}
	// 2. delta debugging with sliding windows of halving size, repeated until a
	// full cascade removes nothing (every candidate is an executable schedule,
	// because inapplicable actions are no-ops).
	for progress := true; progress && time.Now().Before(deadline); {
		progress = false
		for size := (len(cur) + 1) / 2; size >= 1 && time.Now().Before(deadline); size /= 2 {
			for i := 0; i+size <= len(cur) && time.Now().Before(deadline); {
				cand := append(append([]Action(nil), cur[:i]...), cur[i+size:]...)
				if len(cand) > 0 && test(cand) {
					cur = cand
					progress = true
				} else {
					i += size
				}
			}
		}
	}
	// 3. per-action simplification
	for i := 0; i < len(cur) && time.Now().Before(deadline); i++ {
		a := cur[i]
		var alts []Action
		switch a.K {
		case ADeliver:
			if a.B {
				b := a
				b.B = false
				alts = append(alts, b)
			}
		case ACrash:
			if a.I != 0 || a.J != -1 || a.M != 0 {
				alts = append(alts, Action{K: ACrash, N: a.N, I: 0, J: -1})
				alts = append(alts, Action{K: ACrash, N: a.N, I: a.I, J: -1})
				alts = append(alts, Action{K: ACrash, N: a.N, I: 0, J: a.J})
			}
		case ARestart:
			if a.I != -1 {
				alts = append(alts, Action{K: ARestart, N: a.N, I: -1})
			}
		case APropose:
			if len(a.Tags) > 1 {
				alts = append(alts, Action{K: APropose, N: a.N, Tags: a.Tags[:1], I: a.I, J: a.J})
			}
			if a.J != 0 {
				b := a
				b.J = 0
				alts = append(alts, b)
			}
			if a.I > 0 {
				b := a
				b.I = 0
				alts = append(alts, b)
			}
		case ACompact:
			if a.I != 0 || a.J != 0 {
				alts = append(alts, Action{K: ACompact, N: a.N, B: a.B})
			}
		}
		for _, alt := range alts {
			cand := append([]Action(nil), cur...)
			cand[i] = alt
			if test(cand) {
				cur = cand
				break
			}
		}
	}
	out := cur
	if suffix != nil {
		out = append(append([]Action(nil), cur...), suffix...)
	}
	return out, best, tests
}
