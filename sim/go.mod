module verifsim

go 1.26

require (
	github.com/anishathalye/porcupine v1.3.0
	go.etcd.io/raft/v3 v3.0.0
	google.golang.org/protobuf v1.36.12
)

replace go.etcd.io/raft/v3 => /repo
