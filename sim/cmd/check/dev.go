package main

import (
	"encoding/json"
	"flag"
	"fmt"
	"sort"
	"time"

	"verifsim/engine"
)

func devMain(args []string) int {
	fs := flag.NewFlagSet("dev", flag.ExitOnError)
	prof := fs.String("profile", "default", "profile name")
	seed := fs.Uint64("seed", 1, "VERIF_SEED")
	from := fs.Int("from", 0, "first run index")
	n := fs.Int("n", 100, "number of runs")
	verbose := fs.Bool("v", false, "verbose")
	dump := fs.Bool("dump", false, "dump trace of violating runs")
	target := fs.String("target", "", "target property (others are recorded as foreign)")
	emit := fs.Bool("emit", false, "write a minimised replay file for the first violation of the target property")
	fs.Parse(args)
	p, ok := engine.ProfileByName(*prof)
	if !ok {
		fmt.Println("unknown profile", *prof)
		return 2
	}
	t0 := time.Now()
	viol := map[string]int{}
	first := map[string]string{}
	probes := map[string]int{}
	faults := map[string]int{}
	evals := map[string]int{}
	actions, ticks, conv, exempt := 0, 0, 0, 0
	for i := *from; i < *from+*n; i++ {
		r := engine.RunOne(p, *seed, i, engine.Options{Target: *target})
		actions += r.Stats.Actions
		ticks += r.Stats.Ticks
		for k, v := range r.Stats.Probes {
			probes[k] += v
		}
		for k, v := range r.Stats.Faults {
			faults[k] += v
		}
		for k, v := range r.Stats.OracleEvals {
			evals[k] += v
		}
		if r.Heal != nil {
			if r.Heal.Converged {
				conv++
			}
			if r.Heal.Exempt != "" {
				exempt++
			}
		}
		if r.Foreign != nil {
			viol["foreign "+r.Foreign.Property+"/"+r.Foreign.Sig]++
		}
		if r.Violation != nil {
			key := r.Violation.Property + "/" + r.Violation.Sig
			viol[key]++
			if _, ok := first[key]; !ok {
				first[key] = fmt.Sprintf("run %d step %d/%d: %s", i, r.Violation.Step, len(r.Trace), r.Violation.Msg)
			}
			if *verbose {
				fmt.Printf("run %d: %s\n", i, r.Violation)
			}
			if *verbose && r.Final != "" {
				fmt.Print(r.Final)
			}
			if *emit && r.Violation.Property == *target {
				acts := r.Trace
				if r.HealAt >= 0 && r.HealAt < len(r.Trace) {
					acts = append([]engine.Action(nil), r.Trace[:r.HealAt+1]...)
				}
				path, err := emitReplay(*target, *seed, engine.ViolRec{RunIndex: i, RunSeed: r.RunSeed, Profile: p.Name, Config: r.Config, Actions: acts, Violation: r.Violation, Digest: r.Digest}, true)
				fmt.Println("replay file:", path, err)
				*emit = false
			}
			if *dump {
				b, _ := json.Marshal(r.Config)
				fmt.Printf("config: %s\n", b)
				for j, a := range r.Trace {
					fmt.Printf("%4d %s\n", j+1, a)
				}
			}
		} else if *verbose {
			if r.Final != "" {
				fmt.Print(r.Final)
			}
			fmt.Printf("run %d: ok actions=%d digest=%s heal=%+v\n", i, r.Stats.Actions, r.Digest, r.Heal)
		}
	}
	el := time.Since(t0)
	fmt.Printf("%d runs in %v (%.1f ms/run), %d actions, %d ticks, converged %d, exempt %d\n", *n, el, float64(el.Milliseconds())/float64(*n), actions, ticks, conv, exempt)
	printMap("violations", viol)
	var ks []string
	for k := range first {
		ks = append(ks, k)
	}
	sort.Strings(ks)
	for _, k := range ks {
		fmt.Printf("  first %s: %s\n", k, first[k])
	}
	if *verbose {
		printMap("faults", faults)
		printMap("probes", probes)
		printMap("evals", evals)
	}
	return 0
}

func printMap(name string, m map[string]int) {
	var ks []string
	for k := range m {
		ks = append(ks, k)
	}
	sort.Strings(ks)
	fmt.Printf("%s:\n", name)
	for _, k := range ks {
		fmt.Printf("  %-45s %d\n", k, m[k])
	}
}
