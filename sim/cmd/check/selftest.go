package main

import (
	"flag"
	"fmt"
	"os"
	"os/exec"
	"sort"
	"strconv"
	"strings"
	"sync"

	"verifsim/engine"
)

// selftest determinism: the same runs in fresh processes under different
// GOMAXPROCS must produce identical digests.
func selftestMain(args []string) int {
	if len(args) < 1 || args[0] != "determinism" {
		usage()
	}
	fs := flag.NewFlagSet("selftest", flag.ExitOnError)
	runs := fs.Int("runs", 12, "runs per profile and process")
	child := fs.Bool("child", false, "internal")
	seed := fs.Uint64("seed", 1, "seed")
	fs.Parse(args[1:])
	if *child {
		// every registered profile (both engines), in name order
		profs := engine.Profiles()
		names := make([]string, 0, len(profs))
		for name := range profs {
			names = append(names, name)
		}
		sort.Strings(names)
		for _, name := range names {
			for i := 0; i < *runs; i++ {
				r := engine.RunOne(profs[name], *seed, i, engine.Options{})
				v := "-"
				if r.Violation != nil {
					v = r.Violation.Sig
				}
				fmt.Printf("%s %d %s %d %s\n", name, i, r.Digest, len(r.Trace), v)
			}
		}
		return 0
	}
	self, _ := os.Executable()
	procsList := []int{1, 4, 16, 1, 2, 16, 8, 3}
	outs := make([]string, len(procsList))
	errs := make([]error, len(procsList))
	var wg sync.WaitGroup
	for j, procs := range procsList {
		wg.Add(1)
		go func(j, procs int) {
			defer wg.Done()
			cmd := exec.Command(self, "selftest", "determinism", "--child", "--runs", strconv.Itoa(*runs), "--seed", strconv.FormatUint(*seed, 10))
			cmd.Env = append(os.Environ(), "GOMAXPROCS="+strconv.Itoa(procs))
			out, err := cmd.Output()
			outs[j], errs[j] = string(out), err
		}(j, procs)
	}
	wg.Wait()
	var ref string
	nlines := 0
	for j, procs := range procsList {
		out, err := outs[j], errs[j]
		if err != nil {
			fmt.Fprintf(os.Stderr, "child failed: %v\n", err)
			return 2
		}
		if ref == "" {
			ref = string(out)
			nlines = strings.Count(ref, "\n")
			continue
		}
		if string(out) != ref {
			a, b := strings.Split(ref, "\n"), strings.Split(string(out), "\n")
			for i := range a {
				if i >= len(b) || a[i] != b[i] {
					fmt.Printf("determinism self-test FAILED at GOMAXPROCS=%d: %q vs %q\n", procs, a[i], b[min(i, len(b)-1)])
					break
				}
			}
			return 2
		}
	}
	fmt.Printf("determinism self-test passed: %d runs (%d per profile, every profile of both engines) x %d fresh processes (GOMAXPROCS 1/2/3/4/8/16) identical\n", nlines, *runs, len(procsList))
	return 0
}
