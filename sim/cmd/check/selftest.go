package main

import (
	"flag"
	"fmt"
	"os"
	"os/exec"
	"strconv"
	"strings"

	"verifsim/engine"
)

// selftest determinism: the same runs in fresh processes under different
// GOMAXPROCS must produce identical digests.
func selftestMain(args []string) int {
	if len(args) < 1 || args[0] != "determinism" {
		usage()
	}
	fs := flag.NewFlagSet("selftest", flag.ExitOnError)
	runs := fs.Int("runs", 64, "runs per process")
	child := fs.Bool("child", false, "internal")
	seed := fs.Uint64("seed", 1, "seed")
	fs.Parse(args[1:])
	if *child {
		p := engine.DefaultProfile()
		for i := 0; i < *runs; i++ {
			r := engine.RunOne(p, *seed, i, engine.Options{})
			v := "-"
			if r.Violation != nil {
				v = r.Violation.Sig
			}
			fmt.Printf("%d %s %d %s\n", i, r.Digest, len(r.Trace), v)
		}
		return 0
	}
	self, _ := os.Executable()
	var ref string
	for _, procs := range []int{1, 4, 16, 1, 4, 16} {
		cmd := exec.Command(self, "selftest", "determinism", "--child", "--runs", strconv.Itoa(*runs), "--seed", strconv.FormatUint(*seed, 10))
		cmd.Env = append(os.Environ(), "GOMAXPROCS="+strconv.Itoa(procs))
		out, err := cmd.Output()
		if err != nil {
			fmt.Fprintf(os.Stderr, "child failed: %v\n", err)
			return 2
		}
		if ref == "" {
			ref = string(out)
			continue
		}
		if string(out) != ref {
			a, b := strings.Split(ref, "\n"), strings.Split(string(out), "\n")
			for i := range a {
				if i >= len(b) || a[i] != b[i] {
					fmt.Printf("determinism self-test FAILED at GOMAXPROCS=%d: %q vs %q\n", procs, a[i], b[min(i, len(b)-1)])
					break
				}
			}
			return 2
		}
	}
	fmt.Printf("determinism self-test passed: %d runs x 6 processes (GOMAXPROCS 1/4/16) identical\n", *runs)
	return 0
}
