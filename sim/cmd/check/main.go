package main

import (
	"fmt"
	"os"
)

func main() {
	if len(os.Args) < 2 {
		usage()
	}
	switch os.Args[1] {
	case "dev":
		os.Exit(devMain(os.Args[2:]))
	case "worker":
		os.Exit(workerMain(os.Args[2:]))
	case "replay":
		os.Exit(replayMain(os.Args[2:]))
	case "selftest":
		os.Exit(selftestMain(os.Args[2:]))
	case "check":
		os.Exit(checkMain(os.Args[2:]))
	default:
		usage()
	}
}

func usage() {
	fmt.Fprintln(os.Stderr, `usage:
  check check <property> [--tier quick|thorough] [--runs N] [--workers N]
  check replay <file>
  check selftest determinism [--runs N]
  check dev [--profile P] [--seed S] [--from I] [--n N] [-v]`)
	os.Exit(2)
}
