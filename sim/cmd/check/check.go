package main

import (
	"encoding/binary"
	"encoding/json"
	"flag"
	"fmt"
	"os"
	"os/exec"
	"path/filepath"
	"runtime"
	"sort"
	"strconv"
	"strings"
	"time"

	"verifsim/engine"
)

const toolVersion = "verifsim-1"

func verifDir() string {
	if d := os.Getenv("VERIF_DIR"); d != "" {
		return d
	}
	return "/verif"
}

// Finding is an entry of known_findings.json.
type Finding struct {
	ID          string `json:"id"`
	Property    string `json:"property"`
	Status      string `json:"status"` // open | fixed
	Oracle      string `json:"oracle"`
	Sig         string `json:"sig"`
	Description string `json:"description"`
	Replay      string `json:"replay,omitempty"`
	Commit      string `json:"commit,omitempty"`
}

type FindingsFile struct {
	Findings []Finding `json:"findings"`
}

func loadFindings() []Finding {
	b, err := os.ReadFile(filepath.Join(verifDir(), "known_findings.json"))
	if err != nil {
		return nil
	}
	var f FindingsFile
	if err := json.Unmarshal(b, &f); err != nil {
		fmt.Fprintf(os.Stderr, "known_findings.json: %v\n", err)
		os.Exit(2)
	}
	return f.Findings
}

func matchOpen(fs []Finding, v *engine.Violation) *Finding {
	for i := range fs {
		f := &fs[i]
		if f.Status == "open" && f.Property == v.Property && f.Sig == v.Sig {
			return f
		}
	}
	return nil
}

type task struct {
	profile  string
	from, to int
}

func checkMain(args []string) int {
	if len(args) < 1 {
		usage()
	}
	prop := args[0]
	fs := flag.NewFlagSet("check", flag.ExitOnError)
	tier := fs.String("tier", envOr("VERIF_TIER", "quick"), "quick|thorough")
	runsFlag := fs.Int("runs", 0, "override the number of runs")
	workers := fs.Int("workers", 0, "worker processes (default: CPUs)")
	noMin := fs.Bool("no-minimize", false, "skip minimisation")
	scale := fs.Float64("scale", 1, "scale the planned number of runs (development)")
	fs.Parse(args[1:])
	seed := uint64(1)
	if s := os.Getenv("VERIF_SEED"); s != "" {
		v, err := strconv.ParseUint(s, 10, 64)
		if err != nil {
			fmt.Fprintf(os.Stderr, "bad VERIF_SEED %q\n", s)
			return 2
		}
		seed = v
	}
	known := false
	for _, id := range engine.PropertyIDs() {
		if id == prop {
			known = true
		}
	}
	if !known {
		fmt.Fprintf(os.Stderr, "property %s has no check (see MANIFEST.json not_applicable)\n", prop)
		return 2
	}
	spec := engine.SpecFor(prop)
	total := spec.QuickRuns
	if *tier == "thorough" {
		total *= spec.ThoroughX
	}
	if *runsFlag > 0 {
		total = *runsFlag
	}
	W := *workers
	if W <= 0 {
		W = runtime.NumCPU()
	}
	if W > total {
		W = total
	}
	t0 := time.Now()
	// The sampling plan: (profile, number of runs). quick: the property's own
	// profiles at their shares. thorough: the same, 16 times as many; plus the
	// same profiles with chaos phases three times as long and more proposals
	// and membership changes ("+deep", 4 quick batches); plus every profile of
	// every other property (all oracles are evaluated in every run, and a
	// schedule family built for another property can reach this one's
	// subject from an unexpected side), 6 quick batches shared evenly.
	type planItem struct {
		name string
		n    int
	}
	var plan []planItem
	if *tier == "thorough" && *runsFlag == 0 {
		for j, p := range spec.Profiles {
			plan = append(plan, planItem{p.Name, int(float64(spec.QuickRuns*16)*spec.Shares[j] + 0.5)})
		}
		for j, p := range spec.Profiles {
			plan = append(plan, planItem{p.Name + "+deep", int(float64(spec.QuickRuns*4)*spec.Shares[j] + 0.5)})
		}
		own := map[string]bool{}
		for _, p := range spec.Profiles {
			own[p.Name] = true
		}
		var others []string
		for name := range engine.Profiles() {
			if !own[name] {
				others = append(others, name)
			}
		}
		sort.Strings(others)
		for _, name := range others {
			plan = append(plan, planItem{name, spec.QuickRuns * 6 / len(others)})
		}
	} else {
		for j, p := range spec.Profiles {
			plan = append(plan, planItem{p.Name, int(float64(total)*spec.Shares[j] + 0.5)})
		}
	}
	planned := 0
	for i := range plan {
		plan[i].n = int(float64(plan[i].n)**scale + 0.5)
		planned += plan[i].n
	}
	if W > planned {
		W = planned
	}
	fmt.Printf("check %s tier=%s VERIF_SEED=%d runs=%d workers=%d\n", prop, *tier, seed, planned, W)

	findings := loadFindings()
	exit := 0
	knownHit := map[string]int{}

	// 1. regression replays of recorded findings of this property
	for _, f := range findings {
		if f.Property != prop || f.Replay == "" {
			continue
		}
		path := filepath.Join(verifDir(), f.Replay)
		rf, err := loadReplay(path)
		if err != nil {
			fmt.Fprintf(os.Stderr, "finding %s: %v\n", f.ID, err)
			return 2
		}
		r := engine.Replay(rf.Config, rf.Actions, engine.Options{Target: prop})
		reproduced := r.Violation != nil && r.Violation.Property == f.Property && r.Violation.Sig == f.Sig
		switch f.Status {
		case "open":
			if reproduced {
				fmt.Printf("KNOWN-FINDING: property=%s %s: %s\n", prop, f.ID, f.Description)
				knownHit[f.ID]++
			}
		case "fixed":
			if r.Violation != nil && r.Violation.Property == prop {
				fmt.Printf("regression: finding %s (fixed in %s) is back: %s\n", f.ID, f.Commit, r.Violation)
				fmt.Printf("VIOLATION property=%s replay=%s\n", prop, path)
				exit = 1
			}
		}
	}

	// 2. the seeded search
	self, _ := os.Executable()
	tmp, err := os.MkdirTemp("", "verifsim-"+prop+"-")
	if err != nil {
		fmt.Fprintln(os.Stderr, err)
		return 2
	}
	defer os.RemoveAll(tmp)
	tasks := make([][]task, W)
	for j, it := range plan {
		// shares are relative to the nominal run count and need not sum to one
		n := it.n
		for w := 0; w < W; w++ {
			// rotate the starting worker so that small plan items do not all land on worker 0
			a, b := n*w/W, n*(w+1)/W
			if b > a {
				tasks[(w+j)%W] = append(tasks[(w+j)%W], task{it.name, a, b})
			}
		}
	}
	type proc struct {
		cmd *exec.Cmd
		out string
	}
	var procs []proc
	detEvery := 50
	if prop == "C19" {
		detEvery = 1
	}
	for w := 0; w < W; w++ {
		if len(tasks[w]) == 0 {
			continue
		}
		out := filepath.Join(tmp, fmt.Sprintf("w%d", w))
		a := []string{"worker", "--prop", prop, "--seed", strconv.FormatUint(seed, 10), "--out", out, "--det", strconv.Itoa(detEvery)}
		for _, t := range tasks[w] {
			a = append(a, "--task", fmt.Sprintf("%s:%d:%d", t.profile, t.from, t.to))
		}
		cmd := exec.Command(self, a...)
		cmd.Stderr = os.Stderr
		cmd.Env = append(os.Environ(), fmt.Sprintf("GOMAXPROCS=%d", 1+w%4))
		if err := cmd.Start(); err != nil {
			fmt.Fprintln(os.Stderr, err)
			return 2
		}
		procs = append(procs, proc{cmd, out})
	}
	var outs []*engine.BatchOut
	workerFailures := 0
	for _, p := range procs {
		if err := p.cmd.Wait(); err != nil {
			// A worker that gave up (a call into the code under check never
			// returned: watchdog) or died loses its share of the batch; what the
			// other workers found is still reported. Without any violation the
			// batch ends with status 2.
			fmt.Fprintf(os.Stderr, "worker failed: %v\n", err)
			workerFailures++
			continue
		}
		bs, err := readWorker(p.out)
		if err != nil {
			fmt.Fprintf(os.Stderr, "worker output: %v\n", err)
			workerFailures++
			continue
		}
		outs = append(outs, bs...)
	}
	if len(outs) == 0 {
		return 2
	}
	agg := merge(outs)
	if len(agg.ToolErrors) > 0 {
		// A self-check of the simulator failed in some run. Violations found in
		// other runs of the batch are still reported below; without any, the
		// batch ends with status 2 (never with a VIOLATION line of its own).
		fmt.Fprintf(os.Stderr, "tool errors: %v\n", agg.ToolErrors)
	}
	if agg.DetMismatch > 0 {
		// A run whose recorded action list does not reproduce its own digest.
		if prop == "C19" {
			fmt.Printf("determinism: %d of %d re-executions differ\n", agg.DetMismatch, agg.DetChecked)
		} else {
			fmt.Fprintf(os.Stderr, "tool error: %d of %d re-executions of recorded action lists differ (see C19)\n", agg.DetMismatch, agg.DetChecked)
		}
	}

	// 3. violations of this property
	viols := agg.Violations
	sort.SliceStable(viols, func(i, j int) bool {
		if viols[i].Profile != viols[j].Profile {
			return viols[i].Profile < viols[j].Profile
		}
		return viols[i].RunIndex < viols[j].RunIndex
	})
	newViolations := 0
	reportedSig := map[string]bool{}
	for _, v := range viols {
		if f := matchOpen(findings, v.Violation); f != nil {
			if knownHit[f.ID] == 0 {
				fmt.Printf("KNOWN-FINDING: property=%s %s: %s\n", prop, f.ID, f.Description)
			}
			knownHit[f.ID]++
			continue
		}
		if reportedSig[v.Violation.Sig] {
			newViolations++
			continue
		}
		reportedSig[v.Violation.Sig] = true
		newViolations++
		path, err := emitReplay(prop, seed, v, !*noMin)
		if err != nil {
			fmt.Fprintf(os.Stderr, "replay file: %v\n", err)
			return 2
		}
		fmt.Printf("violation: %s (run %d of %s)\n", v.Violation, v.RunIndex, v.Profile)
		fmt.Printf("VIOLATION property=%s replay=%s\n", prop, path)
		exit = 1
	}
	if agg.TargetCount > len(viols) {
		newViolations += agg.TargetCount - len(viols)
	}
	wall := time.Since(t0).Seconds()
	if err := writeEvidence(prop, *tier, seed, spec, agg, wall, newViolations, knownHit); err != nil {
		fmt.Fprintf(os.Stderr, "evidence: %v\n", err)
		return 2
	}
	fmt.Printf("done %s: %d runs, %d actions, %.0f sim ticks, %d non-trivial, foreign=%v, %.1fs\n", prop, agg.Runs, agg.Actions, float64(agg.Ticks), agg.NonTrivial, agg.Foreign, wall)
	if exit == 0 && (len(agg.ToolErrors) > 0 || workerFailures > 0) {
		return 2
	}
	return exit
}

func envOr(k, d string) string {
	if v := os.Getenv(k); v != "" {
		return v
	}
	return d
}

func loadReplay(path string) (*engine.ReplayFile, error) {
	b, err := os.ReadFile(path)
	if err != nil {
		return nil, err
	}
	rf := &engine.ReplayFile{}
	if err := json.Unmarshal(b, rf); err != nil {
		return nil, fmt.Errorf("%s: %v", path, err)
	}
	return rf, nil
}

// emitReplay minimises the violating run, writes the replay file and verifies
// in a fresh process that it reproduces.
func emitReplay(prop string, seed uint64, v engine.ViolRec, minimise bool) (string, error) {
	acts := v.Actions
	viol := v.Violation
	digest := v.Digest
	orig := len(acts)
	note := ""
	if minimise && prop != "C19" {
		m, r, tests := engine.Minimize(v.Config, acts, v.Violation, engine.Options{Target: prop}, 120*time.Second)
		if r != nil && r.Violation != nil {
			acts, viol, digest = m, r.Violation, r.Digest
			note = fmt.Sprintf("minimised from %d to %d actions in %d executions", orig, len(acts), tests)
		} else {
			note = "minimisation could not reproduce the violation from the recorded action list; original kept"
		}
	}
	rf := engine.ReplayFile{Tool: toolVersion, Property: prop, Profile: v.Profile, VerifSeed: seed, RunIndex: v.RunIndex,
		Config: v.Config, Actions: acts, Violation: viol, Digest: digest, OrigLen: orig, Note: note}
	dir := filepath.Join(verifDir(), "replays")
	if d := os.Getenv("VERIF_EVIDENCE_DIR"); d != "" {
		dir = filepath.Join(d, "replays")
	}
	if err := os.MkdirAll(dir, 0o755); err != nil {
		return "", err
	}
	path := filepath.Join(dir, fmt.Sprintf("%s-%016x-%s.json", prop, v.RunSeed, sanitize(viol.Sig)))
	b, _ := json.MarshalIndent(rf, "", " ")
	if err := os.WriteFile(path, b, 0o644); err != nil {
		return "", err
	}
	// fresh-process verification
	self, _ := os.Executable()
	replayOnce := func(path string) (int, []byte, error) {
		cmd := exec.Command(self, "replay", "--quiet", path)
		out, err := cmd.CombinedOutput()
		if ee, ok := err.(*exec.ExitError); ok {
			return ee.ExitCode(), out, nil
		} else if err != nil {
			return 0, out, err
		}
		return 0, out, nil
	}
	code, out, err := replayOnce(path)
	if err != nil {
		return "", err
	}
	if code == 1 {
		return path, nil
	}
	// The minimised schedule does not reproduce in a fresh process. The
	// simulator is deterministic on the unchanged tree (self-test), so the
	// tree under check does something the schedule does not control (map
	// order, a pool, a goroutine of its own). Fall back to the complete
	// recorded schedule and try that a few times.
	rf.Actions, rf.Violation, rf.Digest = v.Actions, v.Violation, v.Digest
	rf.Note = "the minimised schedule did not reproduce in a fresh process; complete recorded schedule kept"
	b, _ = json.MarshalIndent(rf, "", " ")
	if err := os.WriteFile(path, b, 0o644); err != nil {
		return "", err
	}
	for i := 0; i < 4; i++ {
		if code, out, err = replayOnce(path); err != nil {
			return "", err
		} else if code == 1 {
			return path, nil
		}
	}
	// Observed once, not reproducible on replay: still a violation of the
	// property on this tree (the run that showed it is real), reported as
	// such with the recorded schedule; the replay verdict is quoted.
	fmt.Printf("note: the violation below was observed in run %d of %s but its recorded schedule does not reproduce it in a fresh process (%s): the tree under check behaves nondeterministically under one schedule\n", v.RunIndex, v.Profile, strings.TrimSpace(string(out)))
	return path, nil
}

func sanitize(s string) string {
	s = strings.Map(func(r rune) rune {
		if r >= 'a' && r <= 'z' || r >= 'A' && r <= 'Z' || r >= '0' && r <= '9' || r == '.' || r == '_' || r == '-' {
			return r
		}
		return '_'
	}, s)
	if len(s) > 60 {
		s = s[:60]
	}
	return s
}

// ---------------------------------------------------------------------------
// worker output files

func writeWorker(path string, outs []*engine.BatchOut) error {
	b, err := json.Marshal(outs)
	if err != nil {
		return err
	}
	if err := os.WriteFile(path+".json", b, 0o644); err != nil {
		return err
	}
	var bin []byte
	for _, o := range outs {
		bin = binary.LittleEndian.AppendUint64(bin, uint64(len(o.Digests)))
		for _, d := range o.Digests {
			bin = binary.LittleEndian.AppendUint64(bin, d)
		}
		bin = binary.LittleEndian.AppendUint64(bin, uint64(len(o.StateHashes)))
		for _, d := range o.StateHashes {
			bin = binary.LittleEndian.AppendUint64(bin, d)
		}
	}
	return os.WriteFile(path+".bin", bin, 0o644)
}

func readWorker(path string) ([]*engine.BatchOut, error) {
	b, err := os.ReadFile(path + ".json")
	if err != nil {
		return nil, err
	}
	var outs []*engine.BatchOut
	if err := json.Unmarshal(b, &outs); err != nil {
		return nil, err
	}
	bin, err := os.ReadFile(path + ".bin")
	if err != nil {
		return nil, err
	}
	off := 0
	rd := func() uint64 {
		v := binary.LittleEndian.Uint64(bin[off:])
		off += 8
		return v
	}
	for _, o := range outs {
		n := int(rd())
		for i := 0; i < n; i++ {
			o.Digests = append(o.Digests, rd())
		}
		n = int(rd())
		for i := 0; i < n; i++ {
			o.StateHashes = append(o.StateHashes, rd())
		}
	}
	return outs, nil
}

// Agg is the merged result of all workers.
type Agg struct {
	engine.BatchOut
	DistinctDigests int
	DistinctStates  int
	DistinctBigrams int
	PerProfile      map[string]int
	WorkerWallMax   float64
	CPUSeconds      float64
}

func merge(outs []*engine.BatchOut) *Agg {
	a := &Agg{PerProfile: map[string]int{}}
	a.Faults, a.Probes, a.Evals, a.ByKind, a.MsgTypes = map[string]int64{}, map[string]int64{}, map[string]int64{}, map[string]int64{}, map[string]int64{}
	a.RunsWithProbe, a.Foreign = map[string]int64{}, map[string]int64{}
	dig := map[uint64]struct{}{}
	sts := map[uint64]struct{}{}
	bgs := map[uint16]struct{}{}
	add := func(dst, src map[string]int64) {
		for k, v := range src {
			dst[k] += v
		}
	}
	for _, o := range outs {
		a.Runs += o.Runs
		a.PerProfile[o.Profile] += o.Runs
		a.Actions += o.Actions
		a.Applicable += o.Applicable
		a.Ticks += o.Ticks
		a.CPUSeconds += o.WallS
		if o.WallS > a.WorkerWallMax {
			a.WorkerWallMax = o.WallS
		}
		add(a.Faults, o.Faults)
		add(a.Probes, o.Probes)
		add(a.Evals, o.Evals)
		add(a.ByKind, o.ByKind)
		add(a.MsgTypes, o.MsgTypes)
		add(a.RunsWithProbe, o.RunsWithProbe)
		add(a.Foreign, o.Foreign)
		a.NonTrivial += o.NonTrivial
		a.Violations = append(a.Violations, o.Violations...)
		a.TargetCount += o.TargetCount
		a.ToolErrors = append(a.ToolErrors, o.ToolErrors...)
		if len(a.Samples) < 3 {
			a.Samples = append(a.Samples, o.Samples...)
		}
		a.HealConverged += o.HealConverged
		a.HealExempt += o.HealExempt
		a.HealRun += o.HealRun
		a.HealRoundsSum += o.HealRoundsSum
		if o.HealRoundsMax > a.HealRoundsMax {
			a.HealRoundsMax = o.HealRoundsMax
		}
		if o.HealRatioMax > a.HealRatioMax {
			a.HealRatioMax = o.HealRatioMax
		}
		a.LinChecked += o.LinChecked
		a.LinOps += o.LinOps
		a.Inconclusive += o.Inconclusive
		if o.MaxTerm > a.MaxTerm {
			a.MaxTerm = o.MaxTerm
		}
		a.LeaderTerms += o.LeaderTerms
		a.Crashes += o.Crashes
		a.DetChecked += o.DetChecked
		a.DetMismatch += o.DetMismatch
		for _, d := range o.Digests {
			dig[d] = struct{}{}
		}
		for _, d := range o.StateHashes {
			sts[d] = struct{}{}
		}
		for _, b := range o.Bigrams {
			bgs[b] = struct{}{}
		}
	}
	if len(a.Samples) > 3 {
		a.Samples = a.Samples[:3]
	}
	a.DistinctDigests, a.DistinctStates, a.DistinctBigrams = len(dig), len(sts), len(bgs)
	return a
}

func workerMain(args []string) int {
	fs := flag.NewFlagSet("worker", flag.ExitOnError)
	prop := fs.String("prop", "", "property")
	seed := fs.Uint64("seed", 1, "VERIF_SEED")
	out := fs.String("out", "", "output path prefix")
	det := fs.Int("det", 50, "re-execute every n-th run")
	var tasks multi
	fs.Var(&tasks, "task", "profile:from:to")
	fs.Parse(args)
	spec := engine.SpecFor(*prop)
	var outs []*engine.BatchOut
	for _, t := range tasks {
		parts := strings.Split(t, ":")
		if len(parts) != 3 {
			fmt.Fprintln(os.Stderr, "bad task", t)
			return 2
		}
		p, ok := engine.ProfileByName(parts[0])
		if !ok {
			fmt.Fprintln(os.Stderr, "unknown profile", parts[0])
			return 2
		}
		from, _ := strconv.Atoi(parts[1])
		to, _ := strconv.Atoi(parts[2])
		outs = append(outs, engine.RunBatch(*prop, p, *seed, from, to, spec.Mandatory, time.Time{}, *det))
	}
	if err := writeWorker(*out, outs); err != nil {
		fmt.Fprintln(os.Stderr, err)
		return 2
	}
	return 0
}

type multi []string

func (m *multi) String() string     { return strings.Join(*m, ",") }
func (m *multi) Set(s string) error { *m = append(*m, s); return nil }

func replayMain(args []string) int {
	fs := flag.NewFlagSet("replay", flag.ExitOnError)
	quiet := fs.Bool("quiet", false, "print only the verdict")
	state := fs.Bool("state", false, "print the final state and the raft log even if nothing is violated (development)")
	fs.Parse(args)
	if fs.NArg() < 1 {
		usage()
	}
	rf, err := loadReplay(fs.Arg(0))
	if err != nil {
		fmt.Fprintln(os.Stderr, err)
		return 2
	}
	r := engine.Replay(rf.Config, rf.Actions, engine.Options{Target: rf.Property, Debug: *state})
	if *state && r.Violation == nil {
		fmt.Print(r.Final)
	}
	if r.ToolError != "" {
		fmt.Fprintf(os.Stderr, "tool error: %s\n", r.ToolError)
		return 2
	}
	if rf.Property == "C19" && r.Violation == nil {
		// determinism: several executions of the same call sequence
		for i := 0; i < 8 && r.Violation == nil; i++ {
			r.Violation = engine.DeterminismCheck(r, engine.Options{Target: "C19"})
		}
		if r.Violation != nil {
			fmt.Printf("replay %s: %s\n", fs.Arg(0), r.Violation)
			fmt.Printf("VIOLATION property=C19 replay=%s\n", fs.Arg(0))
			return 1
		}
	}
	if r.Violation == nil {
		fmt.Printf("replay %s: no violation (digest %s)\n", fs.Arg(0), r.Digest)
		return 0
	}
	same := rf.Violation != nil && r.Violation.Property == rf.Violation.Property && r.Violation.Sig == rf.Violation.Sig
	if !*quiet {
		fmt.Printf("replay %s: %s\n", fs.Arg(0), r.Violation)
		if r.Final != "" {
			fmt.Print(r.Final)
		}
	}
	if rf.Violation != nil && !same {
		fmt.Printf("replay reached a different violation than recorded (%s)\n", rf.Violation)
		return 3
	}
	if rf.Digest != "" && rf.Digest != r.Digest {
		fmt.Printf("replay reproduced the violation with a different digest (%s vs %s)\n", r.Digest, rf.Digest)
		return 3
	}
	fmt.Printf("VIOLATION property=%s replay=%s\n", r.Violation.Property, fs.Arg(0))
	return 1
}
