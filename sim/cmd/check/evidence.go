package main

import (
	"encoding/json"
	"fmt"
	"os"
	"path/filepath"
	"sort"
	"strings"

	"verifsim/engine"
)

var assumptions = []string{
	"A1 sync mode: Ready.Messages are handed to the network only after the whole write group of that Ready is durable",
	"A2 async mode: one storage thread processes its messages in order; Responses are delivered only after that message's write is durable; a MsgStorageAppend without responses may be written without sync",
	"A3 write group order: snapshot, entries, hard state; a group containing a snapshot is written atomically with its hard state",
	"A4 MustSync=false permits a non-durable write of HardState/Entries; lost unsynced writes are a suffix of the write journal",
	"A5 a completed write is visible through Storage whether or not it is durable",
	"A6 restart uses the same Config except Applied; the ConfState reported by Storage is the membership as of Applied (snapshot style or durable checkpoint); Applied is never above the durable commit index",
	"A7 ApplyConfChange is called for every committed conf-change entry, in log order, before Advance / before the MsgStorageApplyResp",
	"A8 node ids are not reused after removal; joiners start with empty storage; a change that would empty the voter set is cancelled at apply time by zeroing its node ids",
	"A9 Storage errors other than ErrCompacted/ErrUnavailable/ErrSnapshotTemporarilyUnavailable are outside the contract",
	"A10 application snapshots are taken at an applied index not above the written commit index, with the ConfState of exactly that index; compaction never passes the latest snapshot",
	"A11 one outstanding Ready in sync mode; Advance exactly once per Ready; never in async mode",
	"A12 only messages sent by nodes of the group are delivered; From/To/Term are never altered",
	"A13 (heal phase only) the application takes a snapshot of its applied state at least once per election timeout, so Storage.Snapshot() eventually reflects the current membership",
	"the state machine applies a client write at most once (deduplicates by proposal tag), as any application on top of at-least-once proposal forwarding must",
}

func writeEvidence(prop, tier string, seed uint64, spec engine.PropSpec, a *Agg, wall float64, violations int, knownHit map[string]int) error {
	var samples []interface{}
	for _, s := range a.Samples {
		samples = append(samples, s)
	}
	if len(samples) == 0 {
		samples = append(samples, map[string]string{"note": "no fault-bearing run short enough to print was produced in this batch"})
	}
	profiles := []string{}
	for name := range a.PerProfile {
		profiles = append(profiles, name)
	}
	sort.Strings(profiles)
	starved := []string{}
	for _, m := range spec.Mandatory {
		if a.RunsWithProbe[m] == 0 {
			starved = append(starved, m)
		}
	}
	perHour := func(x float64) float64 {
		if wall <= 0 {
			return 0
		}
		return x / wall * 3600
	}
	e3runs := 0
	for name, cnt := range a.PerProfile {
		if name == "node" || strings.HasSuffix(name, "-node") || strings.HasSuffix(name, "-node+deep") {
			e3runs += cnt
		}
	}
	real := []string{"raft.go", "log.go", "log_unstable.go", "rawnode.go", "read_only.go", "tracker/", "quorum/", "confchange/",
		"raftpb (marshal at send, unmarshal per delivery)", "storage.go MemoryStorage (page cache)", "bootstrap.go", "status.go", "crypto/rand.Int draw in resetRandomizedElectionTimeout (bytes from the seeded seam)"}
	notRun := []string{"rafttest/", "default logger"}
	if e3runs > 0 {
		real = append(real, fmt.Sprintf("node.go (channel-based Node with its run loop goroutine, in the %d E3 runs of this batch)", e3runs))
	} else {
		notRun = append(notRun, "node.go channel wrapper (no E3 runs in this batch)")
	}
	cov := map[string]interface{}{
		"evaluations":         a.Runs,
		"distinct_nontrivial": min(int(a.NonTrivial), a.DistinctDigests),
		"rule": "one evaluation = one simulated run (chaos phase with seeded faults, then the deterministic heal phase, then history checks); run i of profile P uses seed splitmix(VERIF_SEED, P, i). " +
			"A run is non-trivial when at least one injected fault took effect and every mandatory probe of the property fired in that run and no violation truncated it; distinct = distinct digests over the complete observable execution (every action, every Ready, every return value); distinct_nontrivial = min(non-trivial runs, distinct digests)",
		"samples":                           samples,
		"mandatory_probes":                  spec.Mandatory,
		"probe_starved":                     starved,
		"profiles":                          profiles,
		"runs_per_profile":                  a.PerProfile,
		"runs_per_hour":                     perHour(float64(a.Runs)),
		"seeds_per_hour":                    perHour(float64(a.Runs)),
		"actions":                           a.Actions,
		"applicable_actions":                a.Applicable,
		"simulated_ticks":                   a.Ticks,
		"simulated_ticks_per_run":           float64(a.Ticks) / float64(max(a.Runs, 1)),
		"cpu_seconds":                       a.CPUSeconds,
		"distinct_run_digests":              a.DistinctDigests,
		"distinct_abstract_states":          a.DistinctStates,
		"abstract_state_measure":            "hash of per node (role, term rank, uncommitted-tail bucket, commit-applied bucket, unstable entries/snapshot, joint, voter count) plus in-flight message count bucket, sampled every 8th action",
		"distinct_action_bigrams":           a.DistinctBigrams,
		"faults_took_effect":                a.Faults,
		"probes":                            a.Probes,
		"runs_with_probe":                   a.RunsWithProbe,
		"oracle_evaluations":                a.Evals,
		"actions_by_kind":                   a.ByKind,
		"messages_by_type":                  a.MsgTypes,
		"foreign_violations":                a.Foreign,
		"known_findings_hit":                knownHit,
		"inconclusive":                      a.Inconclusive,
		"linearizability_histories_checked": a.LinChecked,
		"linearizability_operations":        a.LinOps,
		"heal_phases_run":                   a.HealRun,
		"heal_converged":                    a.HealConverged,
		"heal_exempt":                       a.HealExempt,
		"heal_rounds_max_when_converged":    a.HealRoundsMax,
		"heal_worst_rounds_over_budget":     a.HealRatioMax,
		"crashes":                           a.Crashes,
		"leaderships":                       a.LeaderTerms,
		"max_term":                          a.MaxTerm,
		"determinism_reexecutions":          a.DetChecked,
		"determinism_mismatches":            a.DetMismatch,
		"components_real":                   real,
		"components_stub":                   []string{"network (simulated transport)", "clocks (simulated tick sources)", "disk durability (journal + durable image)", "application state machine (hash chain + register file)", "clients and operators (seeded workload)"},
		"components_not_run":                notRun,
		"e3_node_runs":                      e3runs,
	}
	ev := map[string]interface{}{
		"property_id": prop,
		"tier":        tier,
		"seed":        seed,
		"level":       "exploration",
		"coverage":    cov,
		"assumptions": assumptions,
		"wall_s":      wall,
		"violations":  violations,
	}
	dir := filepath.Join(verifDir(), "evidence")
	if d := os.Getenv("VERIF_EVIDENCE_DIR"); d != "" {
		dir = d
	}
	if err := os.MkdirAll(dir, 0o755); err != nil {
		return err
	}
	b, err := json.MarshalIndent(ev, "", " ")
	if err != nil {
		return err
	}
	return os.WriteFile(filepath.Join(dir, prop+".json"), b, 0o644)
}
