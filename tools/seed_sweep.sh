#!/bin/sh
# usage: tools/seed_sweep.sh "<seeds>" [workers] [tier]  -- runs every check under each VERIF_SEED; prints one line per (seed, property)
cd "$(dirname "$0")/.." || exit 2
W=${2:-8}; T=${3:-quick}
./check build || exit 2
for s in $1; do
  for id in $(jq -r '.checks[].property_id' MANIFEST.json); do
    VERIF_SEED=$s VERIF_EVIDENCE_DIR=$(pwd)/bin/sweep-ev ./check $id --tier $T --workers $W > bin/sweep_${s}_$id.log 2>&1; e=$?
    echo "seed=$s $id exit=$e $(grep -E '^(violation|VIOLATION|KNOWN)' bin/sweep_${s}_$id.log | head -3 | tr '\n' ' ') $(tail -1 bin/sweep_${s}_$id.log)"
  done
done
