#!/bin/bash
# usage: tools/mutant_eval.sh <dir with patch.diff demo_test.go meta.json> <checks...>
# Confirms the seeded change (suite passes, demo fails with it and passes without it) in a scratch
# worktree outside /repo and /verif, then runs the given checks against that tree. Removes the worktree.
set -u
D=$(readlink -f "$1"); shift
NAME=$(basename "$D")
W=/tmp/mv-$NAME-$$
export GOFLAGS=-mod=mod GOPROXY=off GOSUMDB=off GOTOOLCHAIN=local
git -C /repo worktree add -q --detach "$W" HEAD || exit 2
cleanup() { git -C /repo worktree remove --force "$W" >/dev/null 2>&1; rm -rf "$W"; }
trap cleanup EXIT
cd "$W" || exit 2
RES="$D/${EVAL_NAME:-eval.txt}"; : > "$RES"
if ! git apply "$D/patch.diff" 2>>"$RES"; then echo "PATCH-DOES-NOT-APPLY" | tee -a "$RES"; exit 3; fi
if ! go1.26.8 build ./... >>"$RES" 2>&1; then echo "BUILD-FAILS" | tee -a "$RES"; exit 3; fi
SUITE=fail
for try in 1 2 3 4; do
  # the wall-clock tests in rafttest (TestBasicProgress, TestPause, TestRestart) and TestNodeProposeWaitDropped flake on a loaded machine, also on the unchanged tree
  if go1.26.8 test -vet=off -count=1 ./... >>"$RES" 2>&1; then SUITE=ok; break; fi
done
if [ $SUITE = ok ]; then echo "suite: pass with patch (try $try)" | tee -a "$RES"; else echo "SUITE-FAILS-WITH-PATCH" | tee -a "$RES"; exit 3; fi
cp "$D/demo_test.go" ./zz_seeded_demo_test.go
if go1.26.8 test -vet=off -count=1 -run TestSeeded_ . >>"$RES" 2>&1; then echo "DEMO-PASSES-WITH-PATCH (not a valid demonstration)" | tee -a "$RES"; DEMO=bad; else echo "demo: fails with patch" | tee -a "$RES"; DEMO=ok; fi
git apply -R "$D/patch.diff"
if go1.26.8 test -vet=off -count=1 -run TestSeeded_ . >>"$RES" 2>&1; then echo "demo: passes without patch" | tee -a "$RES"; else echo "DEMO-FAILS-WITHOUT-PATCH" | tee -a "$RES"; DEMO=bad; fi
rm -f zz_seeded_demo_test.go
[ "$DEMO" = ok ] || exit 3
git apply "$D/patch.diff"
# run the checks from a snapshot of /verif so that concurrent edits there do not disturb the build
SNAP=/tmp/mv-verif-$NAME-$$
mkdir -p "$SNAP" && cp -r ${VERIF_SNAP:-/verif}/check ${VERIF_SNAP:-/verif}/sim ${VERIF_SNAP:-/verif}/known_findings.json ${VERIF_SNAP:-/verif}/findings "$SNAP"/ 2>/dev/null
cd "$SNAP"
for chk in "$@"; do
  OUT=$(VERIF_REPO="$W" VERIF_EVIDENCE_DIR=/tmp/mv-ev-$$ ./check $chk 2>&1)
  rc=$?
  echo "check $chk: exit $rc $(echo "$OUT" | grep -E '^violation' | head -2 | tr '\n' ' ')" | tee -a "$RES"
  echo "$OUT" | grep -E "^done" >> "$RES"
done
rm -rf /tmp/mv-ev-$$ "$SNAP"
