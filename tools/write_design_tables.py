#!/usr/bin/env python3
"""Regenerates the tables of DESIGN.md sections 15 and 16 between their markers."""
import subprocess,re
p='/verif/DESIGN.md'
s=open(p).read()
t15=subprocess.check_output(['python3','/verif/tools/design_table.py']).decode()
t16=subprocess.check_output(['python3','/verif/tools/cost_table.py']).decode()
s=re.sub(r'<!-- SEC15-TABLE -->.*?<!-- /SEC15-TABLE -->','<!-- SEC15-TABLE -->\n'+t15.replace('\\','\\\\')+'<!-- /SEC15-TABLE -->',s,flags=re.S)
s=re.sub(r'<!-- SEC16-TABLE -->.*?<!-- /SEC16-TABLE -->','<!-- SEC16-TABLE -->\n'+t16.replace('\\','\\\\')+'<!-- /SEC16-TABLE -->',s,flags=re.S)
open(p,'w').write(s)
