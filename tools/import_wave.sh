#!/bin/bash
# usage: tools/import_wave.sh <outdir e.g. /tmp/w4-out/C17> [extra checks...]
# Copies A/ and B/ of a sub-agent's output into /verif/seeded/<prop>-<name>/ and evaluates each with tools/mutant_eval.sh.
O=$1; shift
for v in A B; do
  [ -f "$O/$v/patch.diff" ] || { echo "$O/$v: no patch"; continue; }
  prop=$(jq -r .property "$O/$v/meta.json"); name=$(jq -r .name "$O/$v/meta.json")
  D=/verif/seeded/$prop-$name
  [ -e "$D" ] && D=$D-w4
  mkdir -p "$D"; cp "$O/$v/patch.diff" "$O/$v/demo_test.go" "$O/$v/meta.json" "$D/"
  echo "== $D"
  /verif/tools/mutant_eval.sh "$D" "$prop --runs 6000" "$@" 2>&1 | grep -E "^(check|suite|demo|SUITE|DEMO|PATCH|BUILD)"
done
