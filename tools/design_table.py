#!/usr/bin/env python3
"""Prints the DESIGN.md section-15 table from /verif/seeded/*/meta.json (after tools/seeded_summary.py)."""
import json, glob, os, re
rows=[]
for d in sorted(glob.glob('/verif/seeded/*/')):
    name=os.path.basename(d.rstrip('/'))
    m=json.load(open(d+'meta.json'))
    evs=m.get('evaluation',[])
    # latest evaluation per check wins (files sort: eval-round1 < eval.txt < eval5.txt ...)
    order={'eval-round1.txt':0,'eval.txt':1}
    def key(e):
        f=e['file']; 
        if f in order: return (order[f],f)
        mm=re.match(r'eval(\d+)',f); return (2+int(mm.group(1)) if mm else 2, f)
    latest={}
    for e in sorted(evs,key=key): latest[e['check']]=e
    caught=[c for c,e in sorted(latest.items()) if e['exit']==1]
    missed=[c for c,e in sorted(latest.items()) if e['exit']==0]
    broken=[c for c,e in sorted(latest.items()) if e['exit'] not in (0,1)]
    oracle=''
    for c in caught:
        mm=re.search(r'violation: (\S+)',latest[c]['first_violation'])
        if mm: oracle=mm.group(1); 
        if c==m.get('property'): break
    hist=''
    earlier=[e for e in evs if e['exit']==0 and e['check'] in caught and e is not latest[e['check']]]
    if earlier: hist='missed at first; caught after strengthening'
    rows.append((name,m.get('property'),', '.join(caught) or '-',', '.join(missed) or '-',oracle,hist+(' TOOL-ERROR:'+','.join(broken) if broken else '')))
print('| seeded change | target | caught by (quick-size batch) | not caught by | first oracle | note |')
print('|---|---|---|---|---|---|')
for r in rows: print('| %s | %s | %s | %s | %s | %s |'%r)
n=len(rows); own=sum(1 for r in rows if r[1] in r[2].split(', ')); anyc=sum(1 for r in rows if r[2]!='-')
print('\n%d seeded changes; %d caught by the check of the property they were written against; %d caught by some check.'%(n,own,anyc))
