#!/bin/bash
# usage: tools/eval_all.sh <eval-name> [workers] [dirs...]
# Re-evaluates seeded defects (default: all of /verif/seeded/*) against one snapshot of the machinery taken now:
# for each, tools/mutant_eval.sh with its own property's check at quick size. Results: seeded/<id>/<eval-name>.txt
cd "$(dirname "$0")/.." || exit 2
NAME=${1:-eval_all}; W=${2:-8}; shift; shift
DIRS=${*:-$(ls -d seeded/*/)}
SNAP=/var/tmp/evalsnap-$$
mkdir -p "$SNAP" && cp -r check sim known_findings.json findings "$SNAP"/ || exit 2
trap 'rm -rf "$SNAP"' EXIT
for d in $DIRS; do
  prop=$(jq -r .property "$d/meta.json")
  extra=$(jq -r '.also_run // [] | .[]' "$d/meta.json" 2>/dev/null)
  args=("$prop --runs 6000 --workers $W")
  for x in $extra; do args+=("$x --runs 6000 --workers $W"); done
  EVAL_NAME=$NAME.txt VERIF_SNAP="$SNAP" tools/mutant_eval.sh "$d" "${args[@]}" 2>&1 | grep -E "^(check|SUITE|DEMO|PATCH|BUILD)" | sed "s#^#$(basename $d): #"
done
