#!/bin/bash
# usage: tools/import_only.sh <outdir e.g. /tmp/w5/C17/out> <suffix e.g. w5>  -- copies A/ and B/ into /verif/seeded/<prop>-<name>[-suffix]/ (no evaluation)
O=$1; SUF=$2
for v in A B; do
  [ -f "$O/$v/patch.diff" ] && [ -f "$O/$v/meta.json" ] && [ -f "$O/$v/demo_test.go" ] || { echo "$O/$v: incomplete" >&2; continue; }
  prop=$(jq -r .property "$O/$v/meta.json"); name=$(jq -r .name "$O/$v/meta.json")
  D=/verif/seeded/$prop-$name
  [ -e "$D" ] && D=$D-$SUF
  mkdir -p "$D"; cp "$O/$v/patch.diff" "$O/$v/demo_test.go" "$O/$v/meta.json" "$D/"
  echo "$D"
done
