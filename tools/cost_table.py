#!/usr/bin/env python3
"""Prints the DESIGN.md section-16 table from /verif/evidence/*.json."""
import json,glob
print('| check | runs | wall s | runs/hour | simulated ticks | actions | crashes | distinct run digests | distinct abstract states | heal phases (converged / exempt) | worst heal rounds / budget |')
print('|---|---|---|---|---|---|---|---|---|---|---|')
tot=0
for f in sorted(glob.glob('/verif/evidence/C*.json')):
    e=json.load(open(f)); c=e['coverage']
    tot+=c['evaluations']
    print('| %s %s seed %s | %d | %.0f | %.2e | %d | %d | %d | %d | %d | %d (%d / %d) | %.2f |'%(e['property_id'],e['tier'],e['seed'],c['evaluations'],e['wall_s'],c['runs_per_hour'],c['simulated_ticks'],c['actions'],c['crashes'],c['distinct_run_digests'],c['distinct_abstract_states'],c['heal_phases_run'],c['heal_converged'],c['heal_exempt'],c.get('heal_worst_rounds_over_budget',0)))
print('\ntotal runs: %d'%tot)
