#!/bin/sh
# Runs every registered check at the given tier (default quick) on /repo and validates the evidence files.
# usage: tools/run_all.sh [quick|thorough] [ids...]
cd "$(dirname "$0")/.." || exit 2
tier=${1:-quick}; shift
ids=${*:-$(jq -r '.checks[].property_id' MANIFEST.json)}
rc=0
for id in $ids; do
  t0=$(date +%s)
  ./check $id --tier $tier > bin/run_$id.log 2>&1; e=$?
  t1=$(date +%s)
  echo "$id exit=$e wall=$((t1-t0))s $(grep -c '^VIOLATION' bin/run_$id.log) violation lines; $(tail -1 bin/run_$id.log)"
  [ $e -ne 0 ] && rc=1
  python3-vt -c "
import json,jsonschema,sys
s=json.load(open('/root/.vp/EVIDENCE.schema.json'))
jsonschema.validate(json.load(open('evidence/$id.json')),s)" || { echo "$id evidence INVALID"; rc=1; }
done
exit $rc
