#!/usr/bin/env python3
"""Summarise /verif/seeded/*/eval*.txt into meta.json ("evaluation") and print a markdown table."""
import json, glob, os, re, sys
rows=[]
for d in sorted(glob.glob('/verif/seeded/*/')):
    name=os.path.basename(d.rstrip('/'))
    meta=json.load(open(d+'meta.json'))
    evs=[]
    for f in sorted(glob.glob(d+'eval*.txt')):
        t=open(f).read()
        conf = ('suite: pass with patch' in t, 'demo: fails with patch' in t, 'demo: passes without patch' in t)
        for m in re.finditer(r'^check (\S+) (--runs \d+(?: --workers \d+)?): exit (\d+)\s*(.*)$', t, re.M):
            evs.append({'file':os.path.basename(f),'check':m.group(1),'args':m.group(2),'exit':int(m.group(3)),'first_violation':m.group(4)[:300], 'suite_pass_with_patch':conf[0],'demo_fails_with_patch':conf[1],'demo_passes_without_patch':conf[2]})
    meta['evaluation']=evs
    caught=sorted({e['check'] for e in evs if e['exit']==1})
    missed=sorted({e['check'] for e in evs if e['exit']==0} - set(caught))
    meta['caught_by']=caught
    meta['missed_by_quick_tier_of']=missed
    meta['what_was_run']="tools/mutant_eval.sh: scratch worktree of /repo HEAD outside /repo and /verif, git apply patch.diff, full suite (must pass), demo_test.go in the root (must fail), patch reverted (demo must pass), then ./check <property> --runs 6000 with VERIF_REPO pointing at the patched worktree; worktree removed afterwards"
    json.dump(meta,open(d+'meta.json','w'),indent=1)
    oracle=''
    for e in evs:
        if e['exit']==1:
            mm=re.search(r'violation: (\S+)',e['first_violation'])
            if mm: oracle=mm.group(1)
    rows.append((name, meta.get('property'), ', '.join(caught) or '-', ', '.join(missed) or '-', oracle))
print('| seeded change | target | caught by check (quick size) | not caught by | first oracle |')
print('|---|---|---|---|---|')
for r in rows: print('| %s | %s | %s | %s | %s |'%r)
