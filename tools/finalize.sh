#!/bin/sh
# Final steps of a session: regenerate every evidence file with the registered quick commands on /repo,
# refresh the seeded-defect summaries and the generated tables of DESIGN.md, validate MANIFEST.json.
cd "$(dirname "$0")/.." || exit 2
tools/run_all.sh quick | tee bin/finalize_run_all.log
python3 tools/seeded_summary.py > /dev/null
python3 tools/write_design_tables.py
python3-vt -c "
import json,jsonschema
jsonschema.validate(json.load(open('MANIFEST.json')),json.load(open('/root/.vp/MANIFEST.schema.json')))
print('manifest ok')"
